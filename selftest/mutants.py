"""Mutants for the checker self-test (DESIGN.md section 5).

breaking: must be reported by every listed property's check (exit 1, VIOLATION line) and the
          report must contain the `expect` strings (the mutated construct is named).
neutral : behaviour-preserving refactorings; every listed check must stay silent (exit 0).
Each edit is (file relative to the tree, old text, new text, which occurrence).
"""

def B(id, props, edits, expect=()):
    return {"id": id, "kind": "breaking", "props": props, "edits": edits, "expect": list(expect)}

def N(id, props, edits):
    return {"id": id, "kind": "neutral", "props": props, "edits": edits, "expect": []}

SE3B = "include/manif/impl/se3/SE3_base.h"
SE3T = "include/manif/impl/se3/SE3Tangent_base.h"
SE23B = "include/manif/impl/se_2_3/SE_2_3_base.h"
SGB = "include/manif/impl/sgal3/SGal3_base.h"
LGB = "include/manif/impl/lie_group_base.h"
TB = "include/manif/impl/tangent_base.h"
RNT = "include/manif/impl/rn/RnTangent_base.h"
BB = "include/manif/impl/bundle/Bundle_base.h"
SO3B = "include/manif/impl/so3/SO3_base.h"

SE2T = "include/manif/impl/se2/SE2Tangent_base.h"
SO3T = "include/manif/impl/so3/SO3Tangent_base.h"
SO2T = "include/manif/impl/so2/SO2Tangent_base.h"
SGT = "include/manif/impl/sgal3/SGal3Tangent_base.h"
BT = "include/manif/impl/bundle/BundleTangent_base.h"

MUTANTS = [
    # ---------------- R-EFFECT (C14, C09) ----------------------------------------------------
    B("effect-static-nonconst", ["C14", "C09"],
      [(RNT, "static const Jacobian Jr = Jacobian::Identity();", "static Jacobian Jr = Jacobian::Identity();", 1)],
      ["R-EFFECT.b-static-local", "rjac"]),
    B("effect-mutable-cache", ["C14", "C09"],
      [("include/manif/impl/so3/SO3.h", "  DataType data_;", "  DataType data_;\n  mutable int hits_ = 0;", 1)],
      ["R-EFFECT.a-mutable", "hits_"]),
    B("effect-const-cast-normalize", ["C14", "C09"],
      [(SO3B, "  return coeffs().w();", "  const_cast<Scalar*>(coeffs().data())[3] *= Scalar(1);\n  return coeffs().w();", 1)],
      ["R-EFFECT.a-cast"]),
    B("effect-rand-in-const-op", ["C14", "C09"],
      [(TB, "  using std::sqrt;\n  return sqrt( squaredWeightedNorm() );", "  using std::sqrt;\n  return sqrt( squaredWeightedNorm() ) + Scalar(0) * Scalar(rand());", 1)],
      ["R-EFFECT.e-prng", "weightedNorm"]),
    N("effect-static-order", ["C14", "C09"],
      [(RNT, "static const Jacobian Jr = Jacobian::Identity();", "const static Jacobian Jr = Jacobian::Identity();", 1)]),
    N("effect-drop-static", ["C14", "C09"],
      [(RNT, "static const Jacobian Jr = Jacobian::Identity();", "const Jacobian Jr = Jacobian::Identity();", 1)]),
    # ---------------- views (C10) ----------------------------------------------------------------------
    B("view-map-overrides-operation", ["C10"],
      [("include/manif/impl/se3/SE3_map.h", "  Map(Scalar* coeffs) : data_(coeffs) { }\n", "  Map(Scalar* coeffs) : data_(coeffs) { }\n  Scalar x() const { return data_(1); }\n", 1)],
      ["R-SURFACE", "x"]),
    B("view-asSO3-offset-out-of-buffer", ["C10"],
      [(SE3B, "    return Eigen::Map<SO3<Scalar>>(coeffs().data()+3);", "    return Eigen::Map<SO3<Scalar>>(coeffs().data()+4);", 1)],
      ["R-PTR", "asSO3"]),
    B("view-assign-renormalises", ["C10"],
      [("include/manif/impl/macro.h", "  Map& operator =(const manif::LieGroupBase<_DerivedOther>& o) { coeffs() = o.coeffs(); return *this; }\\\n  template <typename _EigenDerived>\\\n  Map& operator =(const Eigen::MatrixBase<_EigenDerived>& o) { coeffs() = o; return *this; }\\\n  Map& operator=(Map&& o)",
        "  Map& operator =(const manif::LieGroupBase<_DerivedOther>& o) { coeffs() = o.coeffs(); coeffs() *= Scalar(1) / o.coeffs().norm(); return *this; }\\\n  template <typename _EigenDerived>\\\n  Map& operator =(const Eigen::MatrixBase<_EigenDerived>& o) { coeffs() = o; return *this; }\\\n  Map& operator=(Map&& o)", 1)],
      ["R-ASSIGN"]),
    B("view-const-map-traits-base", ["C19"],
      [("include/manif/impl/rn/RnTangent_map.h", "  using Base = RnTangentBase<Eigen::Map<const RnTangent<Scalar, _N>, 0>>;", "  using Base = RnTangentBase<const Eigen::Map<RnTangent<Scalar, _N>, 0>>;", 1)],
      ["bracket"]),
    B("view-const-access-gives-mutable-view", ["C10"],
      [(SE23B, "  Eigen::Map<const SO3<Scalar>> asSO3() const\n  {\n    return Eigen::Map<const SO3<Scalar>>(coeffs().data()+3);", "  Eigen::Map<SO3<Scalar>> asSO3() const\n  {\n    return Eigen::Map<SO3<Scalar>>(const_cast<Scalar*>(coeffs().data())+3);", 1)],
      ["R-PTR.const"]),
    N("view-raw-pointer-via-address-of", ["C10", "C11"],
      [(SE3B, "    return Eigen::Map<const SO3<Scalar>>(coeffs().data()+3);", "    return Eigen::Map<const SO3<Scalar>>(coeffs().template tail<4>().data());", 1)]),
    # ---------------- Bundle (C11) -------------------------------------------------------------------
    B("bundle-act-jacobian-offset-kind", ["C11"],
      [(BB, "        std::get<_Idx>(internal::traits<_Derived>::DimIdx),\n        std::get<_Idx>(internal::traits<_Derived>::DoFIdx)\n      ) :", "        std::get<_Idx>(internal::traits<_Derived>::DimIdx),\n        std::get<_Idx>(internal::traits<_Derived>::DimIdx)\n      ) :", 1)],
      ["act"]),
    B("bundle-ljac-calls-rjac", ["C11"],
      [(BT, "  ) = element<_Idx>().ljac()), 0) ...};", "  ) = element<_Idx>().rjac()), 0) ...};", 1)],
      ["R-OPAGREE", "ljac_impl"]),
    B("bundle-inverse-missing-zero-fill", ["C11"],
      [(BB, "  if (J_minv_m) {\n    J_minv_m->setZero();\n  }\n  return inverse_impl", "  return inverse_impl", 1)],
      ["inverse"]),
    B("bundle-element-offset-kind", ["C11"],
      [(BB, "    static_cast<const _Derived &>(*this).coeffs().data() +\n    std::get<_Idx>(internal::traits<_Derived>::RepSizeIdx)", "    static_cast<const _Derived &>(*this).coeffs().data() +\n    std::get<_Idx>(internal::traits<_Derived>::DoFIdx)", 1)],
      ["R-PTR", "element"]),
    B("bundle-tangent-algidx-from-dof", ["C11"],
      [("include/manif/impl/bundle/BundleTangent.h", "AlgIdx = compute_indices<_T<_Scalar>::Tangent::LieAlg::RowsAtCompileTime ...>();", "AlgIdx = compute_indices<_T<_Scalar>::Tangent::DoF ...>();", 1)],
      ["C11.a", "AlgIdx"]),
    N("bundle-adj-setzero-instead-of-zero-init", ["C11", "C06"],
      [(BB, "  Jacobian adj = Jacobian::Zero();", "  Jacobian adj;\n  adj.setZero();", 1)]),
    # ---------------- R-FWD (C04) ------------------------------------------------------------------
    B("fwd-tangent-plus-is-rplus", ["C04"],
      [(TB, "  return m.lplus(derived(), J_mout_m, J_mout_t);\n}\n\ntemplate <class _Derived>\ntemplate <typename _DerivedOther>", "  return m.rplus(derived(), J_mout_m, J_mout_t);\n}\n\ntemplate <class _Derived>\ntemplate <typename _DerivedOther>", 1)],
      ["R-FWD.alias", "t.plus(X)"]),
    B("fwd-tangent-rplus-jacobians-swapped", ["C04"],
      [(TB, "  return m.rplus(derived(), J_mout_m, J_mout_t);", "  return m.rplus(derived(), J_mout_t, J_mout_m);", 1)],
      ["R-FWD.roles", "t.rplus(X)"]),
    B("fwd-rminus-is-lminus", ["C04"],
      [(LGB, "  const Tangent t = m.inverse().compose(derived()).log();", "  const Tangent t = derived().compose(m.inverse()).log();", 1)],
      ["R-FWD.definition", "rminus"]),
    B("fwd-free-rminus-calls-lminus", ["C04"],
      [("include/manif/functions.h", "  return lie_group_lhs.rminus(lie_group_rhs, J_t_ma, J_t_mb);", "  return lie_group_lhs.lminus(lie_group_rhs, J_t_ma, J_t_mb);", 1)],
      ["R-FWD.alias", "manif::rminus"]),
    B("fwd-operator-minus-swapped-operands", ["C04"],
      [(LGB, "  return derived().rminus(m);", "  return m.rminus(derived());", 1)],
      ["R-FWD.alias", "operator-"]),
    B("fwd-between-order", ["C04"],
      [(LGB, "  const LieGroup mc = inverse().compose(m);", "  const LieGroup mc = m.compose(inverse());", 1)],
      ["R-FWD.definition", "between"]),
    B("fwd-inplace-plus-uses-lplus", ["C04"],
      [(LGB, "  derived() = derived().rplus(t);", "  derived() = derived().lplus(t);", 1)],
      ["R-FWD.inplace"]),
    N("fwd-rminus-through-between", ["C04", "C09", "C05"],
      [(LGB, "  const Tangent t = m.inverse().compose(derived()).log();", "  const Tangent t = m.between(derived()).log();", 1)]),
    N("fwd-plus-direct", ["C04"],
      [(LGB, "  return derived().rplus(t, J_mout_m, J_mout_t);", "  return rplus(t, J_mout_m, J_mout_t);", 1)]),
    # ---------------- R-TABLE (C07, C06.a) --------------------------------------------------------
    B("table-se3-generator-sign", ["C07"],
      [(SE3T, "                             Scalar(-1), Scalar(0), Scalar(0), Scalar(0),\n                             Scalar( 0), Scalar(0), Scalar(0), Scalar(0) ).finished());\n        return E4;",
        "                             Scalar( 1), Scalar(0), Scalar(0), Scalar(0),\n                             Scalar( 0), Scalar(0), Scalar(0), Scalar(0) ).finished());\n        return E4;", 1)],
      ["R-TABLE.hat", "SE3Tangent"]),
    B("table-so3-vee-swapped", ["C07"],
      [(SO3T, "t.coeffs() << v(2, 1), v(0, 2), v(1, 0);", "t.coeffs() << v(2, 1), v(2, 0), v(1, 0);", 1)],
      ["R-TABLE.vee", "SO3Tangent"]),
    B("table-se2-smalladj-sign", ["C07", "C06"],
      [(SE2T, "  smallAdj(0,2) =  y();", "  smallAdj(0,2) = -y();", 1)],
      ["R-TABLE.smallAdj", "SE2Tangent"]),
    B("table-se2-innerweights", ["C07"],
      [(SE2T, "                               Scalar(0), Scalar(0), Scalar(2) ).finished()", "                               Scalar(0), Scalar(0), Scalar(1) ).finished()", 1)],
      ["R-TABLE.inner", "SE2Tangent"]),
    B("table-se3-generator-no-throw", ["C07"],
      [(SE3T, "      default:\n        MANIF_THROW(\"Index i must be in [0,5]!\", invalid_argument);\n        break;", "      default:\n        break;", 1)],
      ["R-TABLE.generator-range", "SE3Tangent"]),
    B("table-so2-generator-range-off-by-one", ["C07"],
      [(SO2T, "MANIF_CHECK(i==0,", "MANIF_CHECK(i<=1,", 1)],
      ["R-TABLE.generator-range", "SO2Tangent"]),
    B("table-bundle-generator-offset-kind", ["C07"],
      [(BT, "      std::get<_Idx>(internal::traits<Derived>::AlgIdx),\n      std::get<_Idx>(internal::traits<Derived>::AlgIdx)\n    ) = (", "      std::get<_Idx>(internal::traits<Derived>::AlgIdx),\n      std::get<_Idx>(internal::traits<Derived>::DoFIdx)\n    ) = (", 1)],
      ["R-TABLE", "BundleTangent"]),
    B("table-sgal3-hat-time-slot", ["C07"],
      [(SGT, "  sgal3(3, 4) = t();", "  sgal3(4, 3) = t();\n  sgal3(3, 4) = Scalar(0);", 1)],
      ["R-TABLE", "SGal3Tangent"]),
    N("table-se2-smalladj-comma-init", ["C07", "C06"],
      [(SE2T, "  Jacobian smallAdj = Jacobian::Zero();\n\n  smallAdj(0,1) = -angle();\n  smallAdj(1,0) =  angle();\n  smallAdj(0,2) =  y();\n  smallAdj(1,2) = -x();\n",
        "  Jacobian smallAdj;\n  smallAdj << Scalar(0), -angle(), y(),\n              angle(), Scalar(0), -x(),\n              Scalar(0), Scalar(0), Scalar(0);\n", 1)]),
    N("table-so3-vee-via-accessors", ["C07"],
      [(SO3T, "t.coeffs() << v(2, 1), v(0, 2), v(1, 0);", "t.coeffs()(0) = v(2, 1);\n    t.coeffs()(1) = -v(2, 0);\n    t.coeffs()(2) = v(1, 0);", 1)]),
    # ---------------- R-DA / R-GUARD / R-BLOCK / R-NOALIAS (C05, C06, C09) ---------------------
    B("da-se3-adj-missing-zero-block", ["C06"],
      [(SE3B, "  Adj.template bottomLeftCorner<3,3>().setZero();\n", "", 1)],
      ["R-DA", "adj"]),
    B("da-se23-act-missing-zero-block", ["C05"],
      [(SE23B, "J_vout_m->template topRightCorner<3,3>().setZero();", "", 1)],
      ["R-DA", "act", "J_vout_m"]),
    B("guard-se3-inverse", ["C05", "C09"],
      [(SE3B, "  if (J_minv_m)\n  {\n    (*J_minv_m) = -adj();\n  }", "  {\n    (*J_minv_m) = -adj();\n  }", 1)],
      ["R-GUARD", "J_minv_m"]),
    B("guard-wrong-optional", ["C05", "C09"],
      [(LGB, "  if (J_mc_mb)\n  {\n    J_mc_mb->setIdentity();\n  }\n\n  return mc;", "  if (J_mc_ma)\n  {\n    J_mc_mb->setIdentity();\n  }\n\n  return mc;", 1)],
      ["R-GUARD", "J_mc_mb"]),
    B("ni-between-value-depends-on-request", ["C09"],
      [(LGB, "  const LieGroup mc = inverse().compose(m);\n\n  if (J_mc_ma)\n  {", "  LieGroup mc = inverse().compose(m);\n\n  if (J_mc_ma)\n  {\n    mc = m.inverse().compose(derived()).inverse();", 1)],
      ["R-NI", "between"]),
    B("ni-lminus-arms-differ", ["C09"],
      [(LGB, "    J_t_mb->noalias() = -(t.rjacinv() * m.adj());", "    J_t_mb->noalias() = -(t.rjacinv() * m.inverse().adj());", 1)],
      ["R-NI", "lminus"]),
    B("block-se3-act-out-of-range", ["C05"],
      [(SE3B, "J_vout_m->template topRightCorner<3,3>() = -R * skew(v);", "J_vout_m->template block<3,3>(0,4) = -R * skew(v);", 1)],
      ["R-BLOCK"]),
    B("noalias-se3-rjacinv-in-place", ["C06"],
      [(SE3T, "  Jr_inv.template topRightCorner<3,3>().noalias() =\n      -Jr_inv.template topLeftCorner<3,3>()    *\n       Jr_inv.template bottomLeftCorner<3,3>() *\n       Jr_inv.template topLeftCorner<3,3>();",
        "  Jr_inv.template bottomLeftCorner<3,3>().noalias() =\n      -Jr_inv.template topLeftCorner<3,3>()    *\n       Jr_inv.template bottomLeftCorner<3,3>() *\n       Jr_inv.template topLeftCorner<3,3>();\n  Jr_inv.template topRightCorner<3,3>() = Jr_inv.template bottomLeftCorner<3,3>();", 1)],
      ["R-NOALIAS", "rjacinv"]),
    B("da-read-before-write-scratch", ["C06"],
      [(SE3T, "  fillQ( Jr_inv.template bottomLeftCorner<3,3>(), -coeffs() ); // serves as temporary Q\n  Jr_inv.template topLeftCorner<3,3>() = asSO3().rjacinv();",
        "  Jr_inv.template topLeftCorner<3,3>() = asSO3().rjacinv();", 1)],
      ["R-DA", "rjacinv"]),
    N("da-se3-adj-setzero-first", ["C06", "C05"],
      [(SE3B, "  Jacobian Adj;\n  Adj.template topLeftCorner<3,3>() = rotation();", "  Jacobian Adj;\n  Adj.setZero();\n  Adj.template topLeftCorner<3,3>() = rotation();", 1),
       (SE3B, "  Adj.template bottomLeftCorner<3,3>().setZero();\n", "", 1)]),
    N("guard-inverted-form", ["C05", "C09"],
      [(SE3B, "  if (J_minv_m)\n  {\n    (*J_minv_m) = -adj();\n  }", "  if (!J_minv_m) {} else\n  {\n    (*J_minv_m) = -adj();\n  }", 1)]),
    N("guard-has-value-form", ["C05", "C09"],
      [(SE3B, "  if (J_minv_m)\n  {\n    (*J_minv_m) = -adj();\n  }", "  if (J_minv_m.has_value())\n  {\n    J_minv_m.value() = -adj();\n  }", 1)]),
    N("ni-between-hoist-local", ["C09", "C05"],
      [(LGB, "    *J_mc_ma = -(mc.inverse().adj());", "    const Jacobian tmpAdj = mc.inverse().adj();\n    *J_mc_ma = -tmpAdj;", 1)]),
    N("noalias-split-through-temporary", ["C06"],
      [(SE3T, "  Jr_inv.template topRightCorner<3,3>().noalias() =\n      -Jr_inv.template topLeftCorner<3,3>()    *\n       Jr_inv.template bottomLeftCorner<3,3>() *\n       Jr_inv.template topLeftCorner<3,3>();",
        "  const Eigen::Matrix<Scalar, 3, 3> tmpQ = Jr_inv.template topLeftCorner<3,3>() * Jr_inv.template bottomLeftCorner<3,3>();\n  Jr_inv.template topRightCorner<3,3>().noalias() = -tmpQ * Jr_inv.template topLeftCorner<3,3>();", 1)]),
]
