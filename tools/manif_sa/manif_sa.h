#pragma once
#include "clang/AST/ASTConsumer.h"
#include "clang/AST/ASTContext.h"
#include "clang/AST/RecursiveASTVisitor.h"
#include "clang/AST/ParentMapContext.h"
#include "clang/Analysis/CFG.h"
#include "clang/Analysis/Analyses/Dominators.h"
#include "clang/Frontend/CompilerInstance.h"
#include "clang/Frontend/FrontendPluginRegistry.h"
#include "clang/Lex/Lexer.h"
#include "llvm/Support/FileSystem.h"
#include "llvm/Support/JSON.h"
#include "llvm/Support/Path.h"
#include "llvm/Support/raw_ostream.h"
#include <map>
#include <set>
#include <string>
#include <vector>

namespace msa {

struct Ctx {
  clang::ASTContext *AC = nullptr;
  clang::SourceManager *SM = nullptr;
  const clang::LangOptions *LO = nullptr;
  std::string repo;  // absolute, with trailing '/'

  std::string relFile(clang::SourceLocation L) const;
  unsigned line(clang::SourceLocation L) const;
  bool inRepo(clang::SourceLocation L) const;
  std::string text(clang::SourceRange R) const;
  std::string qualName(const clang::NamedDecl *D) const;
  std::string typeStr(clang::QualType T) const;
  llvm::json::Object loc(clang::SourceLocation L) const;
};

void runOdr(Ctx &X, llvm::json::Object &Root);
void runEffects(Ctx &X, llvm::json::Object &Root);
void runFuncs(Ctx &X, llvm::json::Object &Root);
void runPatterns(Ctx &X, llvm::json::Object &Root);

}  // namespace msa
