// mode=odr: definitions in /repo headers that would break linking when two TUs
// include the header (R-ODR, C19 "compiles and links").
#include "manif_sa.h"
using namespace clang;
using namespace msa;

namespace {
struct V : RecursiveASTVisitor<V> {
  Ctx &X;
  int seen = 0;
  llvm::json::Array bad;
  explicit V(Ctx &X) : X(X) {}
  bool shouldVisitTemplateInstantiations() const { return false; }

  void flag(const NamedDecl *D, const char *what) {
    llvm::json::Object O = X.loc(D->getLocation());
    O["name"] = X.qualName(D);
    O["what"] = what;
    bad.push_back(std::move(O));
  }
  bool VisitFunctionDecl(FunctionDecl *F) {
    if (!F->isThisDeclarationADefinition() || !X.inRepo(F->getLocation())) return true;
    ++seen;
    if (F->isTemplated() || F->isDependentContext()) return true;  // templates may be defined in many TUs
    if (F->isInlined() || F->isConstexpr() || F->isDeleted() || F->isDefaulted()) return true;
    if (F->getFormalLinkage() != ExternalLinkage) return true;
    flag(F, "function");
    return true;
  }
  bool VisitVarDecl(VarDecl *D) {
    if (!D->isThisDeclarationADefinition() || !X.inRepo(D->getLocation())) return true;
    if (!D->hasGlobalStorage() || D->isStaticLocal()) return true;
    ++seen;
    if (D->isTemplated() || D->getDeclContext()->isDependentContext()) return true;
    if (D->isInline() || isa<VarTemplateSpecializationDecl>(D)) return true;
    if (D->getFormalLinkage() != ExternalLinkage) return true;
    flag(D, "variable");
    return true;
  }
};
}  // namespace

void msa::runOdr(Ctx &X, llvm::json::Object &Root) {
  V v(X);
  v.TraverseDecl(X.AC->getTranslationUnitDecl());
  Root["definitions_seen"] = v.seen;
  Root["odr_violations"] = std::move(v.bad);
}
