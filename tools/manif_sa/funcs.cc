// mode=funcs: compact JSON export of every function / class / variable that is
// *defined in /repo* - template patterns and their instantiations - with callees,
// template arguments and integer constants resolved by clang.  All rule checkers
// (engine/*.py) run on this export; nothing here decides a property.
#include "manif_sa.h"
#include "clang/AST/ExprCXX.h"
#include "clang/AST/StmtCXX.h"
#include "clang/AST/DeclTemplate.h"

using namespace clang;
using namespace msa;
namespace json = llvm::json;

namespace {

struct Dumper {
  Ctx &X;
  std::map<std::string, int> typeIdx;
  json::Array types;
  std::map<const Decl *, int> declIdx;
  std::map<const Type *, std::pair<int, int>> dimCache;
  explicit Dumper(Ctx &X) : X(X) {}

  int declId(const Decl *D) {
    if (!D) return -1;
    D = D->getCanonicalDecl();
    auto It = declIdx.find(D);
    if (It != declIdx.end()) return It->second;
    int I = (int)declIdx.size();
    declIdx[D] = I;
    return I;
  }
  int typeId(QualType T) {
    std::string S = X.typeStr(T);
    auto It = typeIdx.find(S);
    if (It != typeIdx.end()) return It->second;
    int I = (int)types.size();
    typeIdx[S] = I;
    types.push_back(S);
    return I;
  }

  // ---- Eigen fixed-size dimensions of a type ------------------------------------
  static bool enumVal(const CXXRecordDecl *RD, llvm::StringRef Name, int &Out, int depth = 0) {
    if (!RD || depth > 8) return false;
    RD = RD->getDefinition();
    if (!RD) return false;
    for (const Decl *D : RD->decls())
      if (const auto *ED = dyn_cast<EnumDecl>(D))
        for (const EnumConstantDecl *EC : ED->enumerators())
          if (EC->getName() == Name) { Out = (int)EC->getInitVal().getExtValue(); return true; }
    for (const auto &B : RD->bases()) {
      const CXXRecordDecl *BD = B.getType()->getAsCXXRecordDecl();
      if (BD && enumVal(BD, Name, Out, depth + 1)) return true;
    }
    return false;
  }
  bool dims(QualType T, int &R, int &C) {
    T = T.getNonReferenceType().getCanonicalType();
    if (T->isPointerType()) T = T->getPointeeType().getCanonicalType();  // result of optional::operator->
    if (T->isDependentType()) return false;
    const Type *TP = T.getTypePtr();
    auto It = dimCache.find(TP);
    if (It != dimCache.end()) { R = It->second.first; C = It->second.second; return R != -999; }
    const CXXRecordDecl *RD = T->getAsCXXRecordDecl();
    bool ok = false;
    if (RD) {
      std::string QN = RD->getQualifiedNameAsString();
      if (llvm::StringRef(QN).startswith("Eigen::"))
        ok = enumVal(RD, "RowsAtCompileTime", R) && enumVal(RD, "ColsAtCompileTime", C);
    }
    dimCache[TP] = ok ? std::make_pair(R, C) : std::make_pair(-999, -999);
    return ok;
  }

  // number of scalars stored by a manif object (its `data_` member), for R-PTR
  bool mdims(QualType T, int &N) {
    T = T.getNonReferenceType().getCanonicalType();
    if (T->isDependentType()) return false;
    const CXXRecordDecl *RD = T->getAsCXXRecordDecl();
    if (!RD || !(RD = RD->getDefinition())) return false;
    for (const FieldDecl *FD : RD->fields())
      if (FD->getName() == "data_") {
        int R, C;
        if (dims(FD->getType(), R, C)) { N = R * C; return true; }
      }
    return false;
  }

  // ---- template arguments --------------------------------------------------------
  json::Array targs(const TemplateArgumentList *L) {
    json::Array A;
    if (!L) return A;
    for (const TemplateArgument &TA : L->asArray()) pushArg(A, TA);
    return A;
  }
  void pushArg(json::Array &A, const TemplateArgument &TA) {
    switch (TA.getKind()) {
    case TemplateArgument::Integral: A.push_back((int64_t)TA.getAsIntegral().getExtValue()); break;
    case TemplateArgument::Type: A.push_back(X.typeStr(TA.getAsType())); break;
    case TemplateArgument::Pack: {
      json::Array P;
      for (const TemplateArgument &E : TA.pack_elements()) pushArg(P, E);
      A.push_back(std::move(P));
      break;
    }
    default: {
      std::string S;
      llvm::raw_string_ostream OS(S);
      TA.print(PrintingPolicy(*X.LO), OS, true);
      A.push_back(OS.str());
    }
    }
  }

  void calleeInfo(json::Object &O, const FunctionDecl *FD) {
    if (!FD) return;
    O["fn"] = X.qualName(FD);
    O["fid"] = declId(FD);
    if (const FunctionDecl *P = FD->getTemplateInstantiationPattern()) O["fpat"] = declId(P);
    if (FD->isNoReturn()) O["noret"] = true;
    if (const auto *TA = FD->getTemplateSpecializationArgs()) O["targs"] = targs(TA);
    if (const auto *MD = dyn_cast<CXXMethodDecl>(FD)) {
      const CXXRecordDecl *RD = MD->getParent();
      O["cls"] = RD->getQualifiedNameAsString();
      if (const auto *CTS = dyn_cast<ClassTemplateSpecializationDecl>(RD)) O["clsargs"] = targs(&CTS->getTemplateArgs());
      if (MD->isConst()) O["cmeth"] = true;
      if (MD->isStatic()) O["smeth"] = true;
    }
    O["inrepo"] = X.inRepo(FD->getLocation());
  }

  // ---- expressions / statements --------------------------------------------------
  json::Value expr(const Stmt *S) {
    if (!S) return nullptr;
    // transparent wrappers
    if (const auto *E = dyn_cast<ImplicitCastExpr>(S)) {
      if (E->getCastKind() == CK_UserDefinedConversion || E->getCastKind() == CK_ConstructorConversion)
        return expr(E->getSubExpr());
      return expr(E->getSubExpr());
    }
    if (const auto *E = dyn_cast<ExprWithCleanups>(S)) return expr(E->getSubExpr());
    if (const auto *E = dyn_cast<MaterializeTemporaryExpr>(S)) return expr(E->getSubExpr());
    if (const auto *E = dyn_cast<CXXBindTemporaryExpr>(S)) return expr(E->getSubExpr());
    if (const auto *E = dyn_cast<ParenExpr>(S)) return expr(E->getSubExpr());
    if (const auto *E = dyn_cast<SubstNonTypeTemplateParmExpr>(S)) return expr(E->getReplacement());
    if (const auto *E = dyn_cast<ConstantExpr>(S)) return expr(E->getSubExpr());

    json::Object O;
    O["k"] = S->getStmtClassName();
    O["ln"] = (int64_t)X.line(S->getBeginLoc());
    const Expr *E = dyn_cast<Expr>(S);
    if (E) {
      QualType T = E->getType();
      if (!T.isNull()) {
        O["ty"] = typeId(T);
        int R, C;
        if (!T->isDependentType() && dims(T, R, C)) O["dim"] = json::Array{R, C};
        else if (!T->isDependentType() && T->getAsCXXRecordDecl() && mdims(T, R)) O["mdim"] = R;
        if (!E->isValueDependent() && !E->isTypeDependent() && (T->isIntegralOrEnumerationType()) &&
            !isa<IntegerLiteral>(E) && !isa<CXXBoolLiteralExpr>(E)) {
          Expr::EvalResult ER;
          if (E->EvaluateAsInt(ER, *X.AC, Expr::SE_NoSideEffects)) O["iv"] = (int64_t)ER.Val.getInt().getExtValue();
        }
      }
    }
    bool genericChildren = true;
    if (const auto *D = dyn_cast<DeclRefExpr>(S)) {
      const ValueDecl *VD = D->getDecl();
      O["name"] = VD->getNameAsString();
      O["decl"] = declId(VD);
      O["dk"] = VD->getDeclKindName();
      if (!isa<ParmVarDecl>(VD) && !(isa<VarDecl>(VD) && cast<VarDecl>(VD)->isLocalVarDecl())) O["qn"] = X.qualName(VD);
      if (const auto *V = dyn_cast<VarDecl>(VD)) {
        if (V->hasGlobalStorage()) O["global"] = true;
        if (V->isStaticLocal()) O["slocal"] = true;
      }
      if (const auto *FD = dyn_cast<FunctionDecl>(VD)) calleeInfo(O, FD);
    } else if (const auto *M = dyn_cast<MemberExpr>(S)) {
      O["name"] = M->getMemberDecl()->getNameAsString();
      O["decl"] = declId(M->getMemberDecl());
      O["arrow"] = M->isArrow();
      if (const auto *FD = dyn_cast<FunctionDecl>(M->getMemberDecl())) calleeInfo(O, FD);
      else O["qn"] = X.qualName(M->getMemberDecl());
    } else if (const auto *C = dyn_cast<CXXOperatorCallExpr>(S)) {
      O["op"] = getOperatorSpelling(C->getOperator());
      if (const FunctionDecl *FD = C->getDirectCallee()) calleeInfo(O, FD);
    } else if (const auto *C = dyn_cast<CallExpr>(S)) {
      if (const FunctionDecl *FD = C->getDirectCallee()) calleeInfo(O, FD);
    } else if (const auto *C = dyn_cast<CXXConstructExpr>(S)) {
      calleeInfo(O, C->getConstructor());
      if (C->isElidable()) O["elidable"] = true;
    } else if (const auto *U = dyn_cast<CXXUnresolvedConstructExpr>(S)) {
      O["tyw"] = X.typeStr(U->getTypeAsWritten());
    } else if (const auto *U = dyn_cast<UnresolvedLookupExpr>(S)) {
      O["name"] = U->getName().getAsString();
      if (U->hasExplicitTemplateArgs()) O["targs_txt"] = tmplArgsText(U->template_arguments());
      if (U->getQualifier()) {
        std::string Q;
        llvm::raw_string_ostream OS(Q);
        U->getQualifier()->print(OS, PrintingPolicy(*X.LO));
        O["qual"] = OS.str();
      }
      O["adl"] = U->requiresADL();
    } else if (const auto *U = dyn_cast<UnresolvedMemberExpr>(S)) {
      O["name"] = U->getMemberName().getAsString();
      O["implicit"] = U->isImplicitAccess();
      if (U->hasExplicitTemplateArgs()) O["targs_txt"] = tmplArgsText(U->template_arguments());
      genericChildren = false;
      json::Array Ch;
      if (!U->isImplicitAccess()) Ch.push_back(expr(U->getBase()));
      O["ch"] = std::move(Ch);
    } else if (const auto *U = dyn_cast<CXXDependentScopeMemberExpr>(S)) {
      O["name"] = U->getMember().getAsString();
      O["implicit"] = U->isImplicitAccess();
      O["arrow"] = U->isArrow();
      if (U->hasExplicitTemplateArgs()) O["targs_txt"] = tmplArgsText(U->template_arguments());
      genericChildren = false;
      json::Array Ch;
      if (!U->isImplicitAccess()) Ch.push_back(expr(U->getBase()));
      O["ch"] = std::move(Ch);
    } else if (const auto *U = dyn_cast<DependentScopeDeclRefExpr>(S)) {
      O["name"] = U->getDeclName().getAsString();
      std::string Q;
      llvm::raw_string_ostream OS(Q);
      if (U->getQualifier()) U->getQualifier()->print(OS, PrintingPolicy(*X.LO));
      O["qual"] = OS.str();
      if (U->hasExplicitTemplateArgs()) O["targs_txt"] = tmplArgsText(U->template_arguments());
    } else if (const auto *L = dyn_cast<IntegerLiteral>(S)) {
      O["v"] = (int64_t)L->getValue().getLimitedValue();
    } else if (const auto *L = dyn_cast<FloatingLiteral>(S)) {
      O["v"] = L->getValueAsApproximateDouble();
      O["txt"] = X.text(L->getSourceRange());
    } else if (const auto *L = dyn_cast<CXXBoolLiteralExpr>(S)) {
      O["v"] = L->getValue();
    } else if (const auto *U = dyn_cast<UnaryOperator>(S)) {
      O["op"] = UnaryOperator::getOpcodeStr(U->getOpcode()).str();
      if (U->isPostfix()) O["postfix"] = true;
    } else if (const auto *B = dyn_cast<BinaryOperator>(S)) {
      O["op"] = B->getOpcodeStr().str();
    } else if (const auto *C = dyn_cast<ExplicitCastExpr>(S)) {
      O["to"] = X.typeStr(C->getTypeAsWritten());
      O["ck"] = C->getCastKindName();
      if (isa<CXXConstCastExpr>(C)) O["constcast"] = true;
      // does this cast drop const from the pointee / referee ?
      QualType From = C->getSubExpr()->getType(), To = C->getTypeAsWritten();
      auto pointee = [](QualType Q) { if (Q->isPointerType() || Q->isReferenceType()) return Q->getPointeeType(); return Q; };
      if ((To->isPointerType() || To->isReferenceType()) && !From.isNull() && !From->isDependentType() && !To->isDependentType()) {
        QualType FP = C->getSubExpr()->isGLValue() && !From->isPointerType() ? From : pointee(From);
        if (FP.isConstQualified() && !pointee(To).isConstQualified()) O["dropsconst"] = true;
      }
    } else if (const auto *I = dyn_cast<IfStmt>(S)) {
      genericChildren = false;
      O["cond"] = expr(I->getCond());
      O["then"] = expr(I->getThen());
      O["else"] = expr(I->getElse());
      if (I->getInit()) O["init"] = expr(I->getInit());
    } else if (const auto *F = dyn_cast<ForStmt>(S)) {
      genericChildren = false;
      O["init"] = expr(F->getInit());
      O["cond"] = expr(F->getCond());
      O["inc"] = expr(F->getInc());
      O["body"] = expr(F->getBody());
    } else if (const auto *F = dyn_cast<CXXForRangeStmt>(S)) {
      genericChildren = false;
      O["var"] = varDecl(F->getLoopVariable());
      O["range"] = expr(F->getRangeInit());
      O["body"] = expr(F->getBody());
    } else if (const auto *W = dyn_cast<WhileStmt>(S)) {
      genericChildren = false;
      O["cond"] = expr(W->getCond());
      O["body"] = expr(W->getBody());
    } else if (const auto *W = dyn_cast<DoStmt>(S)) {
      genericChildren = false;
      O["cond"] = expr(W->getCond());
      O["body"] = expr(W->getBody());
    } else if (const auto *R = dyn_cast<ReturnStmt>(S)) {
      genericChildren = false;
      O["e"] = expr(R->getRetValue());
    } else if (const auto *W = dyn_cast<SwitchStmt>(S)) {
      genericChildren = false;
      O["cond"] = expr(W->getCond());
      O["body"] = expr(W->getBody());
    } else if (const auto *Cs = dyn_cast<CaseStmt>(S)) {
      genericChildren = false;
      O["lhs"] = expr(Cs->getLHS());
      O["sub"] = expr(Cs->getSubStmt());
    } else if (const auto *Ds = dyn_cast<DefaultStmt>(S)) {
      genericChildren = false;
      O["sub"] = expr(Ds->getSubStmt());
    } else if (const auto *DS = dyn_cast<DeclStmt>(S)) {
      genericChildren = false;
      json::Array Ds;
      for (const Decl *D : DS->decls()) {
        if (const auto *V = dyn_cast<VarDecl>(D)) Ds.push_back(varDecl(V));
        else { json::Object OD; OD["k"] = D->getDeclKindName(); Ds.push_back(std::move(OD)); }
      }
      O["decls"] = std::move(Ds);
    } else if (const auto *DA = dyn_cast<CXXDefaultArgExpr>(S)) {
      genericChildren = false;
      O["ch"] = json::Array{expr(DA->getExpr())};
    } else if (const auto *SP = dyn_cast<SizeOfPackExpr>(S)) {
      if (!SP->isValueDependent()) O["iv"] = (int64_t)SP->getPackLength();
      O["name"] = SP->getPack()->getNameAsString();
    } else if (const auto *LE = dyn_cast<LambdaExpr>(S)) {
      O["lambda"] = true;
      if (const CXXMethodDecl *CO = LE->getCallOperator()) {
        json::Array Ps;
        for (const ParmVarDecl *P : CO->parameters()) Ps.push_back(declId(P));
        O["lparams"] = std::move(Ps);
      }
    }
    if (genericChildren) {
      json::Array Ch;
      for (const Stmt *C : S->children()) Ch.push_back(expr(C));
      if (!Ch.empty()) O["ch"] = std::move(Ch);
    }
    return json::Value(std::move(O));
  }

  std::string tmplArgsText(llvm::ArrayRef<TemplateArgumentLoc> Args) {
    std::string S;
    bool first = true;
    for (const auto &A : Args) {
      if (!first) S += ", ";
      first = false;
      S += X.text(A.getSourceRange());
    }
    return S;
  }

  json::Value varDecl(const VarDecl *V) {
    if (!V) return nullptr;
    json::Object O;
    O["k"] = "VarDecl";
    O["name"] = V->getNameAsString();
    O["decl"] = declId(V);
    O["ln"] = (int64_t)X.line(V->getLocation());
    QualType T = V->getType();
    O["ty"] = typeId(T);
    int R, C;
    if (!T->isDependentType() && dims(T, R, C)) O["dim"] = json::Array{R, C};
    if (V->isStaticLocal()) O["static"] = true;
    if (T.getNonReferenceType().isConstQualified()) O["constq"] = true;
    if (T->isReferenceType()) O["ref"] = true;
    if (V->isConstexpr()) O["constexpr"] = true;
    if (V->hasInit()) {
      O["init"] = expr(V->getInit());
      O["initstyle"] = (int64_t)V->getInitStyle();
    }
    return json::Value(std::move(O));
  }

  // tl::optional<Eigen::Ref<M>> -> "opt":[r,c]; Eigen::Ref<M> (by value / non-const) -> "ref":[r,c]
  void paramShape(json::Object &PO, QualType T) {
    if (T.isNull() || T->isDependentType()) return;
    QualType CT = T.getCanonicalType();
    PO["cty"] = X.typeStr(CT);
    QualType NR = CT.getNonReferenceType();
    PO["constq"] = NR.isConstQualified();
    PO["isref"] = CT->isReferenceType();
    const auto *RD = NR->getAsCXXRecordDecl();
    const auto *CTS = dyn_cast_or_null<ClassTemplateSpecializationDecl>(RD);
    if (!CTS) return;
    std::string QN = CTS->getQualifiedNameAsString();
    int R, C;
    if (QN == "tl::optional" && CTS->getTemplateArgs().size() >= 1 &&
        CTS->getTemplateArgs()[0].getKind() == TemplateArgument::Type) {
      QualType In = CTS->getTemplateArgs()[0].getAsType();
      const auto *ID = In->getAsCXXRecordDecl();
      if (ID && ID->getQualifiedNameAsString() == "Eigen::Ref" && dims(In, R, C)) PO["opt"] = json::Array{R, C};
      else PO["optother"] = X.typeStr(In);
    } else if (QN == "Eigen::Ref" && dims(NR, R, C)) {
      // Ref<const M> is read-only
      bool constInner = false;
      if (CTS->getTemplateArgs().size() >= 1 && CTS->getTemplateArgs()[0].getKind() == TemplateArgument::Type)
        constInner = CTS->getTemplateArgs()[0].getAsType().isConstQualified();
      if (!constInner) PO["ref"] = json::Array{R, C};
    }
  }

  json::Value function(const FunctionDecl *F) {
    json::Object O;
    O["id"] = declId(F);
    O["name"] = X.qualName(F);
    O["short"] = F->getNameAsString();
    O["file"] = X.relFile(F->getLocation());
    O["line"] = (int64_t)X.line(F->getLocation());
    const FunctionDecl *Pat = F->getTemplateInstantiationPattern();
    bool templ = F->isTemplated() || F->isDependentContext();
    O["kind"] = templ ? "pattern" : (Pat || isa<ClassTemplateSpecializationDecl>(F->getDeclContext()) || F->isTemplateInstantiation() ? "inst" : "plain");
    if (Pat) O["pat"] = declId(Pat);
    else if (const auto *MD = dyn_cast<CXXMethodDecl>(F)) {
      if (const FunctionDecl *MP = MD->getInstantiatedFromMemberFunction()) O["pat"] = declId(MP);
    }
    if (const auto *TA = F->getTemplateSpecializationArgs()) O["targs"] = targs(TA);
    O["ret"] = typeId(F->getReturnType());
    if (!F->getReturnType()->isDependentType()) O["cret"] = X.typeStr(F->getReturnType().getCanonicalType());
    if (F->isNoReturn()) O["noret"] = true;
    if (F->isInlined()) O["inline"] = true;
    if (F->isDefaulted()) O["defaulted"] = true;
    if (F->isDeleted()) O["deleted"] = true;
    O["storage"] = (int64_t)F->getStorageClass();
    if (const auto *MD = dyn_cast<CXXMethodDecl>(F)) {
      const CXXRecordDecl *RD = MD->getParent();
      O["cls"] = RD->getQualifiedNameAsString();
      O["clsid"] = declId(RD);
      if (const auto *CTS = dyn_cast<ClassTemplateSpecializationDecl>(RD)) O["clsargs"] = targs(&CTS->getTemplateArgs());
      if (MD->isConst()) O["const"] = true;
      if (MD->isStatic()) O["static"] = true;
      O["access"] = (int64_t)MD->getAccess();
      if (const auto *CD = dyn_cast<CXXConstructorDecl>(MD)) {
        O["ctor"] = true;
        if (CD->isCopyConstructor()) O["copyctor"] = true;
        if (CD->isMoveConstructor()) O["movector"] = true;
        if (CD->isDelegatingConstructor()) O["delegating"] = true;
        json::Array Inits;
        for (const CXXCtorInitializer *I : CD->inits()) {
          json::Object IO;
          if (I->isAnyMemberInitializer()) IO["member"] = I->getAnyMember()->getNameAsString();
          else if (I->isBaseInitializer()) IO["base"] = X.typeStr(QualType(I->getBaseClass(), 0));
          else if (I->isDelegatingInitializer()) IO["delegate"] = true;
          IO["written"] = I->isWritten();
          IO["init"] = expr(I->getInit());
          Inits.push_back(std::move(IO));
        }
        O["inits"] = std::move(Inits);
      }
    }
    json::Array Ps;
    for (const ParmVarDecl *P : F->parameters()) {
      json::Object PO;
      PO["name"] = P->getNameAsString();
      PO["decl"] = declId(P);
      PO["ty"] = typeId(P->getType());
      paramShape(PO, P->getType());
      if (P->hasDefaultArg() && !P->hasUninstantiatedDefaultArg() && !P->hasUnparsedDefaultArg()) PO["hasdef"] = true;
      Ps.push_back(std::move(PO));
    }
    O["params"] = std::move(Ps);
    O["body"] = expr(F->getBody());
    return json::Value(std::move(O));
  }

  json::Value record(const CXXRecordDecl *RD) {
    json::Object O;
    O["id"] = declId(RD);
    O["name"] = RD->getQualifiedNameAsString();
    O["file"] = X.relFile(RD->getLocation());
    O["line"] = (int64_t)X.line(RD->getLocation());
    O["kind"] = RD->isDependentContext() ? "pattern" : (isa<ClassTemplateSpecializationDecl>(RD) ? "inst" : "plain");
    if (const auto *CTS = dyn_cast<ClassTemplateSpecializationDecl>(RD)) {
      O["targs"] = targs(&CTS->getTemplateArgs());
      O["explicit_spec"] = CTS->isExplicitSpecialization();
    }
    if (const auto *PS = dyn_cast<ClassTemplatePartialSpecializationDecl>(RD)) {
      O["partial"] = true;
      std::string S;
      llvm::raw_string_ostream OS(S);
      printTemplateArgumentList(OS, PS->getTemplateArgs().asArray(), PrintingPolicy(*X.LO));
      O["partial_args"] = OS.str();
    }
    json::Array Bases;
    for (const auto &B : RD->bases()) Bases.push_back(X.typeStr(B.getType()));
    O["bases"] = std::move(Bases);
    json::Array Fields, Methods, Usings, SVars;
    for (const Decl *D : RD->decls()) {
      if (D->isImplicit()) continue;
      if (const auto *FD = dyn_cast<FieldDecl>(D)) {
        json::Object FO;
        FO["name"] = FD->getNameAsString();
        FO["ty"] = typeId(FD->getType());
        if (!FD->getType()->isDependentType()) {
          FO["cty"] = X.typeStr(FD->getType().getCanonicalType());
          int R, C;
          if (dims(FD->getType(), R, C)) FO["dim"] = json::Array{R, C};
        }
        FO["mutable"] = FD->isMutable();
        FO["constq"] = FD->getType().isConstQualified();
        FO["access"] = (int64_t)FD->getAccess();
        FO["ln"] = (int64_t)X.line(FD->getLocation());
        Fields.push_back(std::move(FO));
      } else if (const auto *VD = dyn_cast<VarDecl>(D)) {
        json::Object VO;
        VO["name"] = VD->getNameAsString();
        VO["ty"] = typeId(VD->getType());
        VO["constq"] = VD->getType().isConstQualified();
        VO["constexpr"] = VD->isConstexpr();
        VO["ln"] = (int64_t)X.line(VD->getLocation());
        SVars.push_back(std::move(VO));
      } else if (const auto *US = dyn_cast<UsingDecl>(D)) {
        json::Object UO;
        UO["name"] = US->getNameAsString();
        UO["access"] = (int64_t)US->getAccess();
        Usings.push_back(std::move(UO));
      } else if (const auto *UU = dyn_cast<UnresolvedUsingValueDecl>(D)) {
        json::Object UO;
        UO["name"] = UU->getNameAsString();
        UO["access"] = (int64_t)UU->getAccess();
        Usings.push_back(std::move(UO));
      } else {
        const FunctionDecl *FD = dyn_cast<FunctionDecl>(D);
        if (const auto *FT = dyn_cast<FunctionTemplateDecl>(D)) FD = FT->getTemplatedDecl();
        if (const auto *MD = dyn_cast_or_null<CXXMethodDecl>(FD)) {
          json::Object MO;
          MO["name"] = MD->getNameAsString();
          MO["fid"] = declId(MD);
          MO["access"] = (int64_t)MD->getAccess();
          MO["const"] = MD->isConst();
          MO["static"] = MD->isStatic();
          MO["ctor"] = isa<CXXConstructorDecl>(MD);
          MO["dtor"] = isa<CXXDestructorDecl>(MD);
          MO["template"] = isa<FunctionTemplateDecl>(D);
          MO["defaulted"] = MD->isDefaulted();
          MO["ln"] = (int64_t)X.line(MD->getLocation());
          MO["ret"] = typeId(MD->getReturnType());
          json::Array PT;
          for (const ParmVarDecl *P : MD->parameters()) PT.push_back(typeId(P->getType()));
          MO["ptypes"] = std::move(PT);
          Methods.push_back(std::move(MO));
        }
      }
    }
    O["fields"] = std::move(Fields);
    O["methods"] = std::move(Methods);
    O["usings"] = std::move(Usings);
    O["svars"] = std::move(SVars);
    return json::Value(std::move(O));
  }
};

struct V : RecursiveASTVisitor<V> {
  Ctx &X;
  Dumper &D;
  bool patternsOnly;
  json::Array funcs, classes, vars, enums;
  std::set<const Decl *> seenF, seenC;
  V(Ctx &X, Dumper &D, bool patternsOnly) : X(X), D(D), patternsOnly(patternsOnly) {}
  bool shouldVisitTemplateInstantiations() const { return !patternsOnly; }
  bool shouldVisitImplicitCode() const { return false; }

  bool VisitFunctionDecl(FunctionDecl *F) {
    if (!F->doesThisDeclarationHaveABody() && !F->isDefaulted()) return true;
    if (!X.inRepo(F->getLocation())) return true;
    if (!seenF.insert(F).second) return true;
    if (F->isDefaulted() && !F->doesThisDeclarationHaveABody() && !isa<CXXConstructorDecl>(F)) return true;
    funcs.push_back(D.function(F));
    return true;
  }
  bool VisitCXXRecordDecl(CXXRecordDecl *RD) {
    if (!RD->isThisDeclarationADefinition() || !X.inRepo(RD->getLocation())) return true;
    if (RD->isLambda()) return true;
    if (!seenC.insert(RD).second) return true;
    classes.push_back(D.record(RD));
    return true;
  }
  bool VisitEnumDecl(EnumDecl *ED) {
    if (!ED->isThisDeclarationADefinition() || !X.inRepo(ED->getLocation())) return true;
    if (ED->getDeclContext()->isRecord()) return true;   // anonymous enums inside traits classes
    json::Object O = X.loc(ED->getLocation());
    O["name"] = X.qualName(ED);
    json::Array Es;
    for (const EnumConstantDecl *EC : ED->enumerators()) {
      json::Object EO;
      EO["name"] = EC->getNameAsString();
      EO["v"] = (int64_t)EC->getInitVal().getExtValue();
      Es.push_back(std::move(EO));
    }
    O["enumerators"] = std::move(Es);
    enums.push_back(std::move(O));
    return true;
  }
  bool VisitVarDecl(VarDecl *VD) {
    if (!X.inRepo(VD->getLocation())) return true;
    if (!VD->hasGlobalStorage() || VD->isStaticLocal() || isa<ParmVarDecl>(VD)) return true;
    if (!VD->isThisDeclarationADefinition() && !VD->isStaticDataMember()) return true;
    json::Object O = X.loc(VD->getLocation());
    O["name"] = X.qualName(VD);
    O["decl"] = D.declId(VD);
    O["ty"] = D.typeId(VD->getType());
    O["constq"] = VD->getType().isConstQualified();
    O["constexpr"] = VD->isConstexpr();
    O["member"] = VD->isStaticDataMember();
    O["templated"] = VD->isTemplated() || VD->getDeclContext()->isDependentContext();
    O["def"] = VD->isThisDeclarationADefinition() == VarDecl::Definition;
    if (VD->hasInit()) O["init"] = D.expr(VD->getInit());
    vars.push_back(std::move(O));
    return true;
  }
};

}  // namespace

static void runDump(Ctx &X, json::Object &Root, bool patternsOnly) {
  Dumper D(X);
  V v(X, D, patternsOnly);
  v.TraverseDecl(X.AC->getTranslationUnitDecl());
  Root["functions"] = std::move(v.funcs);
  Root["classes"] = std::move(v.classes);
  Root["vars"] = std::move(v.vars);
  Root["enums"] = std::move(v.enums);
  Root["types"] = std::move(D.types);
}

void msa::runFuncs(Ctx &X, json::Object &Root) { runDump(X, Root, false); }
void msa::runPatterns(Ctx &X, json::Object &Root) { runDump(X, Root, true); }
