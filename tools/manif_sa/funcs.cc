#include "manif_sa.h"
void msa::runFuncs(Ctx &X, llvm::json::Object &Root) {}
