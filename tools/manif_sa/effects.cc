#include "manif_sa.h"
void msa::runEffects(Ctx &X, llvm::json::Object &Root) {}
