#include "manif_sa.h"
void msa::runPatterns(Ctx &X, llvm::json::Object &Root) {}
