// manif-sa: clang 14 frontend plugin emitting facts about /repo's headers as JSON.
// Engine E2 of /verif/DESIGN.md.  One pass = one mode (selected with
// -plugin-arg-manif-sa mode=<m>); every mode walks the *resolved* program
// (template instantiations included) and reports locations in /repo.
#include "manif_sa.h"

using namespace clang;
using namespace msa;

namespace msa {

std::string Ctx::relFile(SourceLocation L) const {
  if (L.isInvalid()) return "";
  SourceLocation E = SM->getExpansionLoc(L);
  llvm::StringRef F = SM->getFilename(E);
  return F.str();
}
unsigned Ctx::line(SourceLocation L) const {
  if (L.isInvalid()) return 0;
  return SM->getExpansionLineNumber(L);
}
bool Ctx::inRepo(SourceLocation L) const {
  std::string F = relFile(L);
  if (F.empty()) return false;
  llvm::SmallString<256> P(F);
  llvm::sys::fs::make_absolute(P);
  llvm::sys::path::remove_dots(P, true);
  return llvm::StringRef(P).startswith(repo);
}
std::string Ctx::text(SourceRange R) const {
  if (R.isInvalid()) return "";
  CharSourceRange CR = CharSourceRange::getTokenRange(SM->getExpansionRange(R).getAsRange());
  return Lexer::getSourceText(CR, *SM, *LO).str();
}
std::string Ctx::qualName(const NamedDecl *D) const {
  std::string S;
  llvm::raw_string_ostream OS(S);
  PrintingPolicy PP(*LO);
  PP.SuppressUnwrittenScope = true;
  D->printQualifiedName(OS, PP);
  return OS.str();
}
std::string Ctx::typeStr(QualType T) const {
  PrintingPolicy PP(*LO);
  PP.SuppressTagKeyword = true;
  PP.SuppressUnwrittenScope = true;
  return T.getAsString(PP);
}
llvm::json::Object Ctx::loc(SourceLocation L) const {
  llvm::json::Object O;
  O["file"] = relFile(L);
  O["line"] = (int64_t)line(L);
  return O;
}

}  // namespace msa

namespace {

class Consumer : public ASTConsumer {
  CompilerInstance &CI;
  std::string mode, out, repo;

public:
  Consumer(CompilerInstance &CI, std::string mode, std::string out, std::string repo)
      : CI(CI), mode(std::move(mode)), out(std::move(out)), repo(std::move(repo)) {}

  void HandleTranslationUnit(ASTContext &AC) override {
    if (CI.getDiagnostics().hasErrorOccurred()) return;  // never emit facts for a TU that did not parse
    Ctx X;
    X.AC = &AC;
    X.SM = &AC.getSourceManager();
    X.LO = &AC.getLangOpts();
    llvm::SmallString<256> P(repo);
    llvm::sys::fs::make_absolute(P);
    llvm::sys::path::remove_dots(P, true);
    X.repo = std::string(P.str());
    if (!llvm::StringRef(X.repo).endswith("/")) X.repo += "/";
    llvm::json::Object Root;
    Root["mode"] = mode;
    Root["main_file"] = X.SM->getFileEntryForID(X.SM->getMainFileID())->getName().str();
    if (mode == "odr") runOdr(X, Root);
    else if (mode == "effects") runEffects(X, Root);
    else if (mode == "funcs") runFuncs(X, Root);
    else if (mode == "patterns") runPatterns(X, Root);
    else { llvm::errs() << "manif-sa: unknown mode " << mode << "\n"; return; }
    std::error_code EC;
    llvm::raw_fd_ostream OS(out, EC);
    if (EC) { llvm::errs() << "manif-sa: cannot write " << out << "\n"; return; }
    OS << llvm::json::Value(std::move(Root));
  }
};

class Action : public PluginASTAction {
  std::string mode = "odr", out = "manif_sa.json", repo = "/repo";

protected:
  std::unique_ptr<ASTConsumer> CreateASTConsumer(CompilerInstance &CI, llvm::StringRef) override {
    return std::make_unique<Consumer>(CI, mode, out, repo);
  }
  bool ParseArgs(const CompilerInstance &, const std::vector<std::string> &args) override {
    for (const auto &a : args) {
      llvm::StringRef A(a);
      if (A.startswith("mode=")) mode = A.substr(5).str();
      else if (A.startswith("out=")) out = A.substr(4).str();
      else if (A.startswith("repo=")) repo = A.substr(5).str();
    }
    return true;
  }
};

}  // namespace

static FrontendPluginRegistry::Add<Action> X("manif-sa", "manif static-analysis fact extractor");
