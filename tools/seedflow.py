#!/opt/veriftools/pyvenv/bin/python
"""Book-keeping for seeded changes produced by independent sub-agents (see DESIGN.md section 10).

  seedflow.py confirm <PROP> <letter> [--tsan]   confirm in a scratch worktree of /repo (outside /repo and /verif):
                                                  the patch applies, the repository's full test-suite still passes,
                                                  the demonstration passes without and fails with the change;
                                                  on success copy patch/demo/meta to /verif/seeded/<PROP>_<letter>/
  seedflow.py detect <PROP>_<letter> [checks..]  apply the patch to /repo, run the registered quick checks, undo,
                                                  record which checks report a violation in meta.json
"""
import json
import os
import shutil
import subprocess
import sys
import time

VERIF = os.path.dirname(os.path.dirname(os.path.abspath(__file__)))
SEED_IN = "/tmp/seed"


def sh(cmd, **kw):
    p = subprocess.run(cmd, shell=isinstance(cmd, str), stdout=subprocess.PIPE, stderr=subprocess.STDOUT, **kw)
    return p.returncode, p.stdout.decode("utf-8", "replace")


def confirm_build(prop, letter):
    """C19-style seeds: the demonstration is a program that builds (compiles and links) and runs on the unchanged
    tree and no longer builds with the change."""
    import glob
    src = os.path.join(SEED_IN, "out_%s" % prop, letter)
    sid = "%s_%s" % (prop, letter)
    wt = os.path.join(SEED_IN, "confirm_%s" % sid)
    sh("git -C /repo worktree remove --force %s" % wt)
    sh("git -C /repo worktree add %s HEAD" % wt)
    meta = {"id": sid, "property": prop, "source": "independent sub-agent given only the property text and a scratch worktree",
            "confirmed_at": time.strftime("%Y-%m-%d %H:%M:%S"), "ran": []}
    try:
        demos = sorted(glob.glob(os.path.join(src, "demo*.cpp")))
        inc = "-I%s/include -I%s/external/tl -isystem /usr/include/eigen3" % (wt, wt)
        build = "g++ -std=c++11 -O0 %s %s -o %s/demo" % (inc, " ".join(demos), wt)
        rc0, out0 = sh(build)
        rc0r, _ = sh("%s/demo" % wt) if rc0 == 0 else (1, "")
        meta["ran"].append({"cmd": "g++ demo*.cpp -o demo && ./demo   (unchanged tree)", "rc_build": rc0, "rc_run": rc0r})
        rc, out = sh("git -C %s apply %s/patch.diff" % (wt, src))
        if rc != 0:
            meta["verdict"] = "rejected: patch does not apply: " + out[-200:]
            return meta
        rc1, out1 = sh(build)
        meta["ran"].append({"cmd": "same build with the change", "rc_build": rc1, "tail": out1[-500:]})
        if rc0 != 0 or rc0r != 0 or rc1 == 0:
            meta["verdict"] = "rejected: demonstration does not discriminate (build without=%s run=%s, build with=%s)" % (rc0, rc0r, rc1)
            return meta
        t0 = time.time()
        rc, out = sh("/tmp/seed/build_and_test.sh %s" % wt, timeout=7200)
        tail = out.strip().splitlines()[-8:]
        ok = any("100% tests passed" in l for l in tail)
        meta["ran"].append({"cmd": "repository's full suite with the change", "rc": rc, "tail": tail, "wall_s": int(time.time() - t0)})
        if not ok:
            meta["verdict"] = "rejected: the existing test-suite does not pass with the change"
            return meta
        meta["verdict"] = "kept"
        notes = open(os.path.join(src, "notes.txt")).read() if os.path.exists(os.path.join(src, "notes.txt")) else ""
        meta["needs_to_manifest"] = notes[:3000]
        dst = os.path.join(VERIF, "seeded", sid)
        os.makedirs(dst, exist_ok=True)
        shutil.copy(os.path.join(src, "patch.diff"), dst)
        for d in demos:
            shutil.copy(d, dst)
        return meta
    finally:
        sh("git -C /repo worktree remove --force %s" % wt)
        shutil.rmtree(wt, ignore_errors=True)
        if meta.get("verdict") == "kept":
            mp = os.path.join(VERIF, "seeded", sid, "meta.json")
            old = json.load(open(mp)) if os.path.exists(mp) else {}
            old.update(meta)
            json.dump(old, open(mp, "w"), indent=1)
        os.makedirs(os.path.join(SEED_IN, "verdicts"), exist_ok=True)
        json.dump(meta, open(os.path.join(SEED_IN, "verdicts", sid + ".json"), "w"), indent=1)
        print(sid, meta.get("verdict"))


def confirm(prop, letter, tsan=False):
    src = os.path.join(SEED_IN, "out_%s" % prop, letter)
    sid = "%s_%s" % (prop, letter)
    wt = os.path.join(SEED_IN, "confirm_%s" % sid)
    sh("git -C /repo worktree remove --force %s" % wt)
    rc, out = sh("git -C /repo worktree add %s HEAD" % wt)
    meta = {"id": sid, "property": prop, "source": "independent sub-agent given only the property text and a scratch worktree",
            "confirmed_at": time.strftime("%Y-%m-%d %H:%M:%S"), "ran": []}
    try:
        rc, out = sh("git -C %s apply %s/patch.diff" % (wt, src))
        meta["ran"].append({"cmd": "git apply patch.diff (scratch worktree at /repo HEAD)", "rc": rc})
        if rc != 0:
            meta["verdict"] = "rejected: patch does not apply to /repo HEAD: " + out[-300:]
            return meta
        cxx = "clang++ -std=c++11 -O1 -g -fsanitize=thread -pthread" if tsan else "g++ -std=c++11 -O1 -pthread"
        inc = "-I%s/include -I%s/external/tl -isystem /usr/include/eigen3" % (wt, wt)
        env = dict(os.environ, TSAN_OPTIONS="halt_on_error=1 exitcode=66")
        rc, out = sh("%s %s %s/demo.cpp -o %s/demo_with" % (cxx, inc, src, wt))
        if rc != 0:
            meta["verdict"] = "rejected: demo does not compile with the change: " + out[-300:]
            return meta
        rcs = []
        for _ in range(3 if tsan else 1):
            rc_with, out_with = sh("%s/demo_with" % wt, env=env, timeout=600)
            rcs.append(rc_with)
            if rc_with != 0:
                break
        meta["ran"].append({"cmd": "%s demo.cpp && ./demo   (with the change)" % cxx, "rc": rc_with, "tail": out_with[-400:]})
        sh("git -C %s checkout -- ." % wt)
        rc, out = sh("%s %s %s/demo.cpp -o %s/demo_without" % (cxx, inc, src, wt))
        rc_without, out_wo = sh("%s/demo_without" % wt, env=env, timeout=600)
        meta["ran"].append({"cmd": "same, on the unchanged tree", "rc": rc_without, "tail": out_wo[-200:]})
        if rc_with == 0 or rc_without != 0:
            meta["verdict"] = "rejected: demonstration does not discriminate (with=%s, without=%s)" % (rc_with, rc_without)
            return meta
        sh("git -C %s apply %s/patch.diff" % (wt, src))
        t0 = time.time()
        rc, out = sh("/tmp/seed/build_and_test.sh %s" % wt, timeout=7200)
        tail = out.strip().splitlines()[-8:]
        ok = any("100% tests passed" in l for l in tail)
        meta["ran"].append({"cmd": "cmake --build (RelWithDebInfo, as the baseline) && ctest: repository's full suite with the change", "rc": rc,
                            "tail": tail, "wall_s": int(time.time() - t0)})
        if not ok:
            meta["verdict"] = "rejected: the existing test-suite does not pass with the change"
            return meta
        meta["verdict"] = "kept"
        notes = open(os.path.join(src, "notes.txt")).read() if os.path.exists(os.path.join(src, "notes.txt")) else ""
        meta["needs_to_manifest"] = notes[:3000]
        dst = os.path.join(VERIF, "seeded", sid)
        os.makedirs(dst, exist_ok=True)
        shutil.copy(os.path.join(src, "patch.diff"), dst)
        shutil.copy(os.path.join(src, "demo.cpp"), dst)
        return meta
    finally:
        sh("git -C /repo worktree remove --force %s" % wt)
        shutil.rmtree(wt, ignore_errors=True)
        d = os.path.join(VERIF, "seeded", sid)
        if meta.get("verdict") == "kept":
            old = {}
            mp = os.path.join(d, "meta.json")
            if os.path.exists(mp):
                old = json.load(open(mp))
            old.update(meta)
            json.dump(old, open(mp, "w"), indent=1)
        os.makedirs(os.path.join(SEED_IN, "verdicts"), exist_ok=True)
        json.dump(meta, open(os.path.join(SEED_IN, "verdicts", sid + ".json"), "w"), indent=1)
        print(sid, meta.get("verdict"))


def detect(sid, checks=None, patch_dir=None):
    d = patch_dir or os.path.join(VERIF, "seeded", sid)
    man = json.load(open(os.path.join(VERIF, "MANIFEST.json")))
    props = checks or [c["property_id"] for c in man["checks"]]
    rc, out = sh("git -C /repo status --porcelain --untracked-files=no")
    if out.strip():
        print("refusing: /repo has local modifications")
        return 2
    rc, out = sh("git -C /repo apply %s/patch.diff" % d)
    if rc != 0:
        print("patch does not apply:", out)
        return 2
    res = {}
    try:
        env = dict(os.environ, VERIF_EVIDENCE_DIR=os.path.join(VERIF, "build", "seed_evidence"))
        for p in props:
            pr = subprocess.run([os.path.join(VERIF, "verif"), "check", p], stdout=subprocess.PIPE, stderr=subprocess.STDOUT, cwd=VERIF, env=env)
            out = pr.stdout.decode("utf-8", "replace")
            lines = [l for l in out.splitlines() if (l.startswith("  ") and "[" in l) or l.startswith("ANALYSIS-BROKEN")][:3]
            res[p] = {"rc": pr.returncode, "first_reports": [l.strip()[:300] for l in lines]}
    finally:
        sh("git -C /repo checkout -- .")
    mp = os.path.join(d, "meta.json")
    meta = json.load(open(mp)) if os.path.exists(mp) else {"id": sid}
    meta["checks_run_against_patched_repo"] = res
    meta["detected_by"] = sorted(p for p, r in res.items() if r["rc"] == 1)
    meta["detect_ran_at"] = time.strftime("%Y-%m-%d %H:%M:%S")
    if not patch_dir:
        json.dump(meta, open(mp, "w"), indent=1)
    print(sid, "detected by:", meta["detected_by"], {p: r["rc"] for p, r in res.items()})
    for p in meta["detected_by"]:
        for l in res[p]["first_reports"][:1]:
            print("   ", p, l[:200])
    return 0


def detect_copy(sid, checks=None, patch_dir=None):
    """Same verdicts as `detect`, but on a scratch copy of /repo's HEAD (outside /repo and /verif) analysed with
    `verif check --repo <copy>`, so that several seeds can be processed in parallel and /repo is never touched."""
    import hashlib
    d = patch_dir or os.path.join(VERIF, "seeded", sid)
    man = json.load(open(os.path.join(VERIF, "MANIFEST.json")))
    props = checks or [c["property_id"] for c in man["checks"]]
    root = "/var/tmp/seedrun"
    os.makedirs(root, exist_ok=True)
    copy = os.path.join(root, sid)
    shutil.rmtree(copy, ignore_errors=True)
    os.makedirs(copy)
    rc, out = sh("git -C /repo archive HEAD | tar -x -C %s" % copy)
    if rc != 0:
        print("archive failed", out)
        return 2
    rc, out = sh("patch -p1 -s -d %s < %s/patch.diff" % (copy, d))
    if rc != 0:
        print(sid, "patch does not apply:", out[:300])
        shutil.rmtree(copy, ignore_errors=True)
        return 2
    res = {}
    alt = os.path.join(VERIF, "build", "alt", hashlib.sha256(copy.encode()).hexdigest()[:12])
    try:
        env = dict(os.environ, VERIF_NO_SELFTEST="1")
        for p in props:
            pr = subprocess.run([os.path.join(VERIF, "verif"), "check", p, "--repo", copy], stdout=subprocess.PIPE, stderr=subprocess.STDOUT, cwd=VERIF, env=env)
            out = pr.stdout.decode("utf-8", "replace")
            lines = [l for l in out.splitlines() if (l.startswith("  ") and "[" in l) or l.startswith("ANALYSIS-BROKEN")][:3]
            res[p] = {"rc": pr.returncode, "first_reports": [l.strip()[:300].replace(copy, "/repo") for l in lines]}
    finally:
        shutil.rmtree(copy, ignore_errors=True)
        shutil.rmtree(alt, ignore_errors=True)
    mp = os.path.join(d, "meta.json")
    meta = json.load(open(mp)) if os.path.exists(mp) else {"id": sid}
    meta["checks_run_against_patched_repo"] = res
    meta["detected_by"] = sorted(p for p, r in res.items() if r["rc"] == 1)
    meta["detect_ran_at"] = time.strftime("%Y-%m-%d %H:%M:%S")
    meta["detect_mode"] = "scratch copy of /repo HEAD + patch, verif check --repo <copy> (same engines; /repo untouched)"
    if not patch_dir:
        json.dump(meta, open(mp, "w"), indent=1)
    print(sid, "detected by:", meta["detected_by"], {p: r["rc"] for p, r in res.items() if r["rc"] != 0})
    for p in meta["detected_by"]:
        for l in res[p]["first_reports"][:1]:
            print("   ", p, l[:200])
    sys.stdout.flush()
    return 0


if __name__ == "__main__":
    if sys.argv[1] == "confirm":
        if "--build" in sys.argv:
            confirm_build(sys.argv[2], sys.argv[3])
        else:
            confirm(sys.argv[2], sys.argv[3], "--tsan" in sys.argv)
    elif sys.argv[1] == "detect":
        sys.exit(detect(sys.argv[2], sys.argv[3:] or None))
    elif sys.argv[1] == "detect-copy":
        sys.exit(detect_copy(sys.argv[2], sys.argv[3:] or None))
    elif sys.argv[1] == "detect-copy-raw":
        sys.exit(detect_copy(sys.argv[2], None, sys.argv[3]))
    elif sys.argv[1] == "detect-raw":
        sys.exit(detect(sys.argv[2], None, sys.argv[3]))
