#include <manif/manif.h>
#include <iostream>
#include <cstdio>
using namespace manif;
template <class T> typename T::Jacobian ljac_series(const T& t){
  typename T::Jacobian ad = t.smallAdj(), term = T::Jacobian::Identity(), sum = T::Jacobian::Identity();
  for(int k=1;k<40;++k){ term = term*ad/double(k+1); sum += term; }
  return sum; }
template <class T> void probe(const char* name, const T& t, double th){
  auto Jl = ljac_series(t); auto Jr = ljac_series(T(-t.coeffs()));
  std::printf("%-8s th=%.3g  ljac %.2e  rjac %.2e  ljacinv %.2e  rjacinv %.2e\n", name, th,
    (t.ljac()-Jl).cwiseAbs().maxCoeff(), (t.rjac()-Jr).cwiseAbs().maxCoeff(),
    (t.ljacinv()-Jl.inverse()).cwiseAbs().maxCoeff(), (t.rjacinv()-Jr.inverse()).cwiseAbs().maxCoeff());
}
int main(){
  for(double th : {1.6e-7, 2e-7, 1e-6, 1e-5, 1e-4, 1e-3, 1e-2}){
    probe("SE2", SE2Tangentd(0.83,1.27,th), th);
  }
  for(double th : {2.9e-5, 3e-5, 5e-5, 1e-4, 1e-3}){
    SGal3Tangentd t; t.coeffs() << 0.83,1.27,0.71, 1.13,0.94,1.39, th*0.6,th*0.0,th*0.8, 0.88;
    probe("SGal3", t, th);
  }
  for(double th : {1.6e-7, 3e-7, 1e-6, 1e-5}){
    SE3Tangentd t; t.coeffs() << 0.83,1.27,0.71, th*0.6,th*0.0,th*0.8;
    probe("SE3", t, th);
  }
}
