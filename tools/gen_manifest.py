#!/opt/veriftools/pyvenv/bin/python
"""Regenerates /verif/MANIFEST.json from the table below (kept in one place so the
manifest stays valid while checks are added)."""
import json
import os

HERE = os.path.dirname(os.path.dirname(os.path.abspath(__file__)))

CHECKS = {
    "C01": dict(
        level="proof", design="10.5",
        technique="static analysis: abstract interpretation of transform/compose/inverse/act/Identity over the polynomial ring Q[coefficients] (R-POLY) and exact normal forms modulo the unit-norm relations",
        text="Decides the exact-arithmetic clause: for SO2, SE2, SO3, SE3, SE_2_3, SGal3 and Rn every cell of T(X.compose(Y)) - T(X)T(Y), T(X.inverse())T(X) - I, X.act(p) - (T(X)[p;e])[:Dim] and T(Identity()) - I is the zero polynomial in the coefficient symbols modulo |rotation part| = 1 (367 identities). Associativity, the two-sided inverse and neutrality of the identity follow from the matrix realisation. Bundles follow from C11. The polynomial domain has a TOP element: anything non-polynomial makes the instance inconclusive (exit 2).",
        note="NOT decided: the floating-point clause ('to working precision'), overflow at large coordinates. Trusted: exact summaries of Eigen::Quaternion product / conjugate / toRotationMatrix / rotation of a vector; cos(atan2(im,re)) = re on the unit circle; evaluated in the valid-operand world (no renormalisation; C08 owns that branch). Originally listed as not applicable (DESIGN.md section 3); built once the polynomial extension of the table interpreter made it cheap (section 10.5).",
    ),
    "C19": dict(
        level="proof", design="3/C19",
        technique="static analysis: compile-witness matrix decided by the C++ type checker (clang -fsyntax-only; g++ in thorough), plus AST linkage rule R-ODR",
        text="Every cell of the finite matrix {documented API entry} x {group} x {float,double} x {owning, Map, Map<const>} x {access through the class, access through LieGroupBase&/TangentBase&} is a one-statement client function that the front end must accept; the quantifier of the property is this finite set of programs, so acceptance of all cells is a proof for the enumerated table. Table completeness is enforced against the public names in the headers; 'links' by R-ODR (no non-inline non-template external definition in a header).",
        note="Trusted: clang 14 (and g++ 12) front ends, system Eigen 3.4, external/tl. 'Forwards to the documented behaviour' is decided by C04's forwarding rule, not here. Quick: 8 group variants (R3, one 4-element Bundle); thorough: R1..R9, three Bundle layouts, and g++.",
    ),
    "C14": dict(
        level="proof", design="3/C14",
        technique="static analysis: effect analysis (R-EFFECT) over the resolved, instantiated const-API call graph exported by a clang plugin",
        text="A data race needs two threads touching the same location, one writing. The check proves, for every instantiated manif function of the all-API drivers (owning, Map and Map<const> operands, 8 group variants), that there is no mutable member, no const-dropping cast, no non-const static-storage variable, no store through a static, no recursive static initialisation, no use of the process-global PRNG outside the Random family, and that the build keeps thread-safe statics; with C++ const-correctness this leaves only reads of shared operands and guard-initialised immutable statics. Finite set of obligations, each discharged on the real AST.",
        note="Trusted: clang 14 AST/instantiation; the compiler's implementation of [stmt.dcl]/4; Eigen fixed-size kernels and libm are re-entrant; callers own their outputs (the property's premise).",
    ),
    "C09": dict(
        level="proof", design="3/C09",
        technique="static analysis: non-interference (taint) + guard + definite-assignment dataflow over the instantiated AST, declaration checks, effect analysis",
        text="Non-interference and purity are dataflow properties. For every instantiated function with optional outputs an abstract interpreter (state split per engagement vector) proves: no dereference of a disengaged optional; nothing computed under `if (J_a)` reaches the returned value or another output (the single table exemption, LieGroupBase::lminus, is verified by term equality of its two arms); no output is read before it is written; no raw data()/stride access on caller-supplied outputs; operations are const/static, take operands by const&/value and return owning types by value; in-place operators assign a materialised temporary; plus R-EFFECT (no hidden state).",
        note="Trusted: clang 14 AST, Eigen kernels write only their destination, tl::optional. Modular: a callee receiving an optional is itself checked, so forwarding is allowed. Bit-identical repetition across calls follows from purity, not from executing anything.",
    ),
    "C05": dict(
        level="other", design="3/C05",
        technique="static analysis: definite-assignment / guard / block-bounds / noalias dataflow over every optional Jacobian output (clang plugin facts + abstract interpreter)",
        text="Decides storage-level necessary conditions only: every requested Jacobian output is written in all its cells on every path, never through a disengaged optional, only inside its static extent, never aliasing a noalias destination, and forwarded outputs are completed by their callees (modular write summaries). It does not decide that the values written are the true derivative.",
        note="NOT decided: numerical correctness of the closed forms, rounding behaviour. Trusted: clang AST/constant folding, Eigen block API semantics.",
    ),
    "C06": dict(
        level="other", design="3/C06",
        technique="static analysis: exact table algebra (smallAdj), definite-assignment / bounds / aliasing dataflow, jet comparison of small-angle switches on rjac, ljac, rjacinv, ljacinv, adj, smallAdj, fillQ",
        text="Decides: C06.a smallAdj()(k,j) equals the structure constants of hat/vee (exact table algebra, all groups); C06.b every returned Jacobian-typed matrix is completely written on every path, scratch blocks are read only after they were written, constant blocks lie inside the matrix, noalias operands are disjoint; C06.c the Taylor and closed-form arms of SE2 ljac/rjacinv/ljacinv, SO3 ljac/ljacinv, SE3 fillQ and SGal3 ljac meet within 1e-7 (double) / 1e-3 (float) at the switch-over, with no negative-order term and no unguarded division.",
        note="NOT decided: rjacinv*rjac = I, Adj(exp t) = ljac*rjacinv, the series identity, accuracy above the switch-over (numerical).",
    ),
    "C07": dict(
        level="proof", design="3/C07",
        technique="static analysis: abstract interpretation of the table-building code over affine forms in Q (R-TABLE) on the instantiated AST, then exact rational algebra on the extracted tables",
        text="Everything in this property is a statement about literal tables and linear layouts and asks for exactness. The check extracts, with an affine-form abstract interpreter over the resolved AST, the tables that Generator(i), hat(), Vee, smallAdj() and InnerWeights() build for SO2, SE2, SO3, SE3, SE_2_3, SGal3, Rn and a 4-element Bundle, and proves over Q: generators are constant and linearly independent, every out-of-range index probe raises invalid_argument, hat = sum c_i E_i cell by cell, Vee(hat c) = c, smallAdj = structure constants of hat/vee, antisymmetry, Jacobi, bracket = smallAdj*b, inner = a^T W b, W = Frobenius Gram and SPD, weightedNorm = sqrt(squaredWeightedNorm). An idiom the interpreter does not know yields exit 2, never a pass.",
        note="Trusted: clang 14 AST/constant folding; the transfer functions for the Eigen idioms listed in engine/symeval.py. Quick: R3 + one Bundle layout; thorough adds R1, R9 and two more layouts.",
    ),
    "C04": dict(
        level="proof", design="3/C04",
        technique="static analysis: term normalisation (R-FWD) - the generic layer's instantiated AST is inlined down to the per-group vocabulary and compared with the documented compositions and with the canonical member of every alias, Jacobian roles included",
        text="The property says which composition each derived operation IS and that every alias returns what the canonical member returns: that is a statement about the forwarding structure of LieGroupBase, TangentBase and functions.h, finite and decidable on the resolved AST. For 8 group variants the check normalises 33 entries each (5 definitions, plus/minus, operators + - * == += *=, lift/retract, t.rplus/lplus/plus(X), t+X, 14 free functions) to terms over {compose, inverse, exp, log, ...} and requires syntactic equality with the documented term / the canonical member's term; each optional Jacobian must receive the term of the output with the same role.",
        note="Trusted: clang's overload resolution and CRTP dispatch as recorded in the AST. Per-group members are uninterpreted symbols (their correctness is C01-C03). The numerical corollaries ((X+t)-X = t) are not decided.",
    ),
    "C11": dict(
        level="proof", design="3/C11",
        technique="static analysis: compile-time static_assert witnesses on generated layouts; exact symbolic placement of the Bundle's tables (affine-form abstract interpreter); definite-assignment + exact-zero dataflow on every Bundle Jacobian; AST rules on pack expansions; raw-view bounds",
        text="'Direct product' is a layout statement: offsets are prefix sums (decided by the compiler's constant evaluator on 48 generated layouts where every group appears first, middle, last, repeated and alone), every table-valued operation (hat, Vee, generators, smallAdj, inner weights) equals the block-diagonal assembly of the element groups' own tables at independently computed offsets (exact), every Jacobian result/output is fully written inside the element blocks and provably exactly zero outside, each X_impl calls X on element<i>() with the index of its block, and element<i>() views lie exactly on the i-th element's coefficients. The analysed layout (SE2,SO3,R4,SGal3) makes the five kinds of offset pairwise distinguishable.",
        note="Values inside the element blocks are the element groups' own operations (other properties). The name-based R-KIND rule of the design was replaced by these semantic placement checks (no false alarm on renamed but equal offset expressions). Trusted: clang constant evaluation, documented element sizes table, Eigen block semantics.",
    ),
    "C10": dict(
        level="proof", design="3/C10",
        technique="static analysis: class-surface and storage-access AST rules on the Eigen::Map specialisations, static_assert and must-not-compile witnesses decided by the type checker, block / raw-view bounds, assignment-family body shapes",
        text="'Same result as an owning object' holds by construction if views and owning objects execute the same function bodies over the same coefficient accessor, and 'writes exactly RepSize scalars' if every access is statically bounded. The check proves these shape facts: the 32 Map specialisations derive from the same CRTP base as the owning class and declare only constructors, coeffs() and operator=; base code never names data_; traits of views equal the owning class's and DataType is a fixed-size Eigen::Map (672 static_asserts); every constant sub-view and internal raw view (asSO3, element<i>, SGal3::log) lies inside its buffer and is const-correct; every operator=/copy/move constructor (patterns and instantiations) only copies coefficients; every mutating API entry is rejected by the compiler on Map<const G> and const G&; C19 covers instantiation of every operation on views.",
        note="NOT decided: last-ulp differences between aligned owning and unaligned view operands (vectorisation paths). Trusted: clang front end, Eigen::Map semantics.",
    ),
    "C15": dict(
        level="other", design="3/C15",
        technique="static analysis: must-pass-through rule on the structured AST, exact polynomial table (sympy over Q) extracted from smoothing_phi, term normalisation of interpolate_slerp",
        text="Decides necessary structural clauses: the [0,1] range check raises before any other use of t in all three routines; interpolate() dispatches every enumerator and raises otherwise; for every supported degree the literal polynomial satisfies phi(0)=0, phi(1)=1, monotone on [0,1], flat ends, and other degrees raise (exact); interpolate_slerp normalises to A*exp(t*log(A^-1*B)). Does not decide end-point equalities of CUBIC/CNSMOOTH nor equivariance.",
        note="Observed outside these rules: interpolate_cubic returns B at t=0 and A at t=1 (recorded in DESIGN.md, not a finding of this check).",
    ),
    "C16": dict(
        level="other", design="3/C16",
        technique="static analysis: must-pass-through / counted-loop / construction-discipline AST rules on the four averaging routines",
        text="Decides: an emptiness check raises before the container is used; a singleton is returned before iterating; the only outer loop is bounded by max_iterations and every loop is a counted loop with unmodified counter and bound (termination within max_iterations*|points| group operations); elements are produced only through group operations. Does not decide stationarity, order independence, equivariance or convergence.",
        note="Numerical clauses are out of reach of this technique family.",
    ),
    "C17": dict(
        level="other", design="3/C17",
        technique="static analysis: must-pass-through argument checks, counted-loop rule, guarded-unsigned-subtraction rule (syntactic linear facts from dominating checks) on decasteljau()",
        text="Decides: the three argument checks precede all index arithmetic; every loop is a counted loop (termination given wrap-free bounds); every unsigned subtraction is dominated by a check, branch or loop condition (or a property precondition) that makes it non-negative. One genuine defect is reported as a known finding (closed-curve block). Does not decide window maximality, the index range of t*(degree-1)+n, or curve values.",
        note="Exemption table with reasons in engine/check_c17.py. Known finding listed in known_findings.txt.",
    ),
    "C02": dict(
        level="other", design="3/C02",
        technique="static analysis: jet (truncated power series over Q, sympy) comparison of the two arms of every small-angle switch feeding exp, evaluated by a two-world abstract interpreter over the instantiated AST; guarded-division rule; call-graph delegation rule",
        text="Decides necessary conditions at and below the switch-over only: for SE2Tangent::exp, SO3Tangent::exp, SO3Tangent::ljac (V of the composite groups) and SGal3Tangent::fillE the closed-form arm has no negative-order term and meets the Taylor arm within 1e-9 (double) / 1e-4 (float) at |theta| = eps^(1/p); nothing is divided by a vanishing quantity on the small-angle side; SE3/SE_2_3/SGal3 exp delegate to those SO3 routines. Does not decide exp = expm(hat) at generic angles, near pi, rounding or overflow.",
        note="One trusted summary (Quaternion(AngleAxis)); tolerances and eps values are the only numbers not read from the source. A genuine defect found by this rule (fillE) was repaired by a fix: commit.",
    ),
    "C03": dict(
        level="other", design="3/C03",
        technique="static analysis: jet comparison with hemisphere sign cases on SO3::log, SE2::log and SO3Tangent::ljacinv; guarded-division rule; delegation and principal-angle term rules",
        text="Decides necessary conditions at the switch-over: in each quaternion hemisphere (w>0, w<0, |v| = sin th, w = +-cos th) the small-angle arm of SO3::log equals the limit of the closed form (q and -q have the same logarithm there); SE2::log and V^-1 arms meet; no division by a vanishing quantity; SE3/SE_2_3/SGal3 log delegate to SO3::log and ljacinv; planar angle() is atan2(imag, real). Does not decide round trips, behaviour near pi, finiteness.",
        note="A genuine defect found by this rule (SO3::log ignores the hemisphere below the threshold) was repaired by a fix: commit.",
    ),
    "C08": dict(
        level="other", design="3/C08",
        technique="static analysis: must-pass-through renormalisation rule on compose, exact series check of the renormalisation polynomial's contraction (sympy), call-graph delegation, producer term rules",
        text="Decides the presence and the contraction property of the mechanism: SO2/SE2/SO3 compose pass a renormalisation step guarded by `abs(sqnorm-1) > eps` (or an unconditional normalisation) that scales every coefficient of the rotation by the same s(sqnorm) with N*s(N)^2 - 1 = O((N-1)^2) (the shipped polynomial contracts cubically); the composite groups delegate to SO3::compose; inverse is the conjugate, cast re-normalises, the small-angle arm of SO3 exp stays within the acceptance threshold. Does not decide a history-independent bound on accumulated rounding drift.",
        note="The behavioural quantifier (all histories, floating point) is out of reach; the mechanism's absence or a non-contracting polynomial would make drift unbounded.",
    ),
    "C13": dict(
        level="other", design="3/C13",
        technique="static analysis: constructor-delegation must-pass-through, assertion rules on both -UNDEBUG and -DNDEBUG instantiations, slice-agreement rule, exact symbolic constructor/accessor round trips, static_assert witnesses",
        text="Decides: every constructor taking rotation data reaches the validating constructor; with assertions on each acceptance test is `!(|norm(slice)-1| < eps)` -> invalid_argument and with NDEBUG none raises; the validated slice equals the slice normalize() rescales and the asSO3()/complex accessors read; coefficient-level constructors followed by translation()/quat()/x()...linearVelocity()/t() give back exactly the supplied quantities (symbolic); cast re-normalises; transform() and hat() matrices have consistent sizes. Does not decide orthonormality of rotation(), wrap-around, gimbal cases, threshold behaviour for specific values.",
        note="A genuine defect found by the size witness (Rn::Transformation NxN) was repaired by a fix: commit.",
    ),
    "C12": dict(
        level="other", design="3/C12",
        technique="static analysis: compile-witness matrix over a forward-mode dual-number scalar (decided by the type checker), AST genericity lint on template patterns, functor witnesses",
        text="Decides the preconditions for scalar genericity, each a necessary condition: every documented API entry (Random family and Dual->float casts exempt, with reason) instantiates for a dual-number scalar with the ceres::Jet interface on owning, Map and Map<const> operands of 8 group variants (3900+ cells); inside function templates there is no concrete-scalar Eigen type, no std::-qualified math call on a dependent argument (ADL must find the dual overloads) and no double/float local receiving group data; the Plus/Minus, objective and constraint functors instantiate through raw-pointer views for double and the dual scalar. Does not decide that the dual parts equal the analytic Jacobians or that float agrees with double.",
        note="Neither ceres nor autodiff is installed: /verif/witness/dual.h models their scalar interface. A genuine defect found here (CeresObjectiveFunctor::setTargetState const) was repaired by a fix: commit.",
    ),
}


# additions made in the second half of the build (DESIGN.md 10.6 / 10.7): appended to the entries above
ADDENDA = {
    "C12": dict(technique="; for float: jet comparison of switch arms and first-order floating-point error analysis of the closed-form arms of exp / log values (R-JET, R-ROUND)",
                text=" C12.d (single-precision clause, values of exp / log): the arms of every precision switch meet at the float switch-over and the first-order rounding-error bound of the closed-form arm in float stays below 1e-4 relative to max(1, |value|) over a ladder of rotation magnitudes from the switch-over (mixed worlds between two switch-overs included).",
                note=" Float Jacobians are not examined by C12.d."),
    "C01": dict(text=" A data-dependent precision switch inside these operations forks the evaluation; the identities are required in every world."),
    "C02": dict(technique="; abstract interpretation of exp over truncated power series in the tangent (R-SERIES, engine/jetnum.py); first-order floating-point error analysis of the closed-form arms (R-ROUND, engine/rounding.py)",
                text=" R-SERIES.exp: for SO2, SE2, SO3, SE3, SE_2_3, SGal3 the code of exp interpreted over truncated power series with exact rational coefficients (all directions at once) gives T(exp t) = sum_{k<=5} hat(t)^k/k! cell by cell, in the closed-form world and in every small-angle world (residual monomials bounded by |coef| * theta_s^a against the R-JET tolerances for double and float), hat being the table proved by C07.",
                note=" R-ROUND (10.11): the first-order rounding-error bound of every value written by exp in a closed-form arm, worst over a ladder of rotation magnitudes from the switch-over (and in the mixed worlds between two switch-overs of one function), stays below 1e-6 (double) / 1e-4 (float) relative to max(1, |value|). Beyond order 5 of the Taylor expansion at the origin nothing is decided.", design="3/C02, 10.6, 10.7, 10.11"),
    "C03": dict(technique="; half-turn world; abstract interpretation of log(exp t) over truncated power series (R-SERIES); first-order floating-point error analysis of the closed-form arms (R-ROUND)",
                text=" R-JET.halfturn: SO3::log at the exact half turn (every comparison decided by exact substitution) returns +-pi*v. R-SERIES.log: for the six groups the code of log applied to the code of exp gives log(exp t) = t + O(|t|^6) coefficient by coefficient, in the closed-form world and in every small-angle world.",
                design="3/C03, 10.6, 10.7"),
    "C05": dict(technique="; first-order floating-point error analysis of the closed-form arms (R-ROUND, engine/rounding.py); exact polynomial Jacobians of compose/inverse/act (R-POLY.jac); power-series interpretation of the Jacobians written by exp and log (R-SERIES)",
                text=" R-POLY.jac (exact): the Jacobians of inverse, compose and act equal the derivatives that follow from the matrix realisation. R-SERIES.expjac/logjac: the Jacobian written by exp(J), resp. by log(J) at exp(t), equals sum (-ad)^k/(k+1)!, resp. sum B_k (-ad)^k/k!, through order 4 for the six groups (closed-form and small-angle worlds). R-SERIES.deriv (first principles, no theory table): for SO2 and SE2 every operation and for SO3 inverse / compose / between / act / exp / log / rminus (thorough: + rplus, lplus, lminus; SE3 inverse, between, act, exp) the Jacobian written by the code equals the eta-coefficient of f(.. (+) eta d ..) (-) f(..), eta^2 = 0, computed by interpreting the library's own code over truncated power series, through order 2 at the identity for a symbolic direction; every Jacobian is also requested alone.",
                note=" R-ROUND reports SE2 exp's Jacobian cells (0,2), (1,2) on the pinned tree (genuine, replayed; 2 known findings). The transcendental Jacobians are decided through order 4 (series) / order 2 (first principles) of their expansion at the origin only; rminus / lminus / log of SE3 and everything of SE_2_3 / SGal3 in R-SERIES.deriv are not attempted (cost).", design="3/C05, 10.5, 10.6, 10.8, 10.11"),
    "C06": dict(technique="; first-order floating-point error analysis of the closed-form arms (R-ROUND, engine/rounding.py); exact adjoint (R-POLY.adj); power-series interpretation of rjac / ljac / rjacinv / ljacinv / Adj(exp t) (R-SERIES)",
                text=" R-POLY.adj (exact): X.adj() e_i = vee(T(X) E_i T(X)^-1). R-SERIES: rjac, ljac, rjacinv, ljacinv equal their series in +-ad (Bernoulli numbers for the inverses; Eigen's inverse() of I + O(t) summarised by its Neumann series) and Adj(exp t) = sum ad^k/k!, through order 4 for the six groups, closed-form and small-angle worlds; a data-dependent isZero() test on input coefficients is evaluated in both input worlds.",
                note=" R-ROUND (10.11): for every observable of the switch functions the first-order rounding-error bound of the closed-form arm, worst over a ladder of rotation magnitudes from the switch-over to 0.1, is at most 1e-6 (double) relative to max(1, |value|); on the pinned tree it reports SE2 rjacinv / ljacinv / ljac and SGal3 ljac block N (9 known findings, each replayed against the real code). Not counted by R-ROUND: needle inputs where two nearly equal reals straddle a rounding boundary, the order of partial sums, float and dual scalars. The series identities are decided through order 4 only.", design="3/C06, 10.5, 10.6, 10.11"),
    "C08": dict(text=" Producers include the planar casts (rebuild from the angle)."),
    "C13": dict(text=" R-MPT.funnel-last: in every constructor the validating step is the last access to the coefficient storage.", design="3/C13, 10.7"),
    "C15": dict(technique="; end points as identities of group terms (R-END, free-group reduction)",
                text=" R-END: for SLERP, CUBIC and CNSMOOTH (degrees 1..4) the group term of the routine with the weights evaluated exactly at t = 0 / 1 reduces to A / B in the free group over {A, B, exp(v)} using associativity, X X^-1 = e, exp(0) = e, exp(-v) = exp(v)^-1, exp(log W) = W - for arbitrary end velocities and every group (96 identities). R-SERIES.slerp (semantic, spelling-independent): for SO2, SE2, SO3, with A = exp(e x), B = A exp(e y) and symbolic tau, T(interpolate_slerp(A,B,tau)) = T(A) sum_k (tau e hat(y))^k/k! through order 3, i.e. the geodesic law log(A^-1 m(tau)) = tau log(A^-1 B) in every direction.",
                note_replace="A genuine defect found by R-END (interpolate_cubic returned B at t=0 and A at t=1) was repaired by a fix: commit. NOT decided: equivariance, interior values, rounding.", design="3/C15, 10.7"),
    "C17": dict(text=" R-LIN.window: window t of the control-point loop nest takes trajectory[t*(degree-1)+n] (exact evaluation of the subscript for degree 2..6 with symbolic loop counters).", design="3/C17, 10.9"),
    "C16": dict(text=" R-ITER.fresh: nothing derived from the iterate before the max_iterations loop is read inside it without being recomputed in the same pass. R-ITER.stop (a structural necessary condition of the equivariance clauses): every test that leaves the max_iterations loop depends on the iterate only through tangent-typed values (group differences) - resolving the non-tangent locals it reads through their definitions in the loop never reaches the iterate variable itself.", technique="; def-use closure of the stopping tests (R-ITER.stop)", design="3/C16, 10.7, 10.12"),
}
for _k, _a in ADDENDA.items():
    _c = CHECKS[_k]
    _c["technique"] += _a.get("technique", "")
    _c["text"] += _a.get("text", "")
    if "note_replace" in _a:
        _c["note"] = _a["note_replace"]
    _c["note"] += _a.get("note", "")
    if "design" in _a:
        _c["design"] = _a["design"]

NOT_APPLICABLE = {
    "C18": "Reflexivity at large coordinates, threshold behaviour and symmetry of isApprox depend on floating-point values of log(Y^-1 X); nothing about them is visible in the shape of the code. The only structural facts (operator== forwards to isApprox) are covered by C04's forwarding table.",
}

PENDING = {
    # properties whose checks are designed (DESIGN.md section 3) but not yet registered;
    # they are listed under not_applicable with that reason until the check is committed.
}


def main():
    props = [json.loads(l)["id"] for l in open(os.path.join(HERE, "properties.jsonl"))]
    checks = []
    for pid in props:
        c = CHECKS.get(pid)
        if not c:
            continue
        checks.append({
            "property_id": pid,
            "quick_cmd": "./verif check %s --tier quick" % pid,
            "thorough_cmd": "./verif check %s --tier thorough" % pid,
            "evidence_file": "/verif/evidence/%s.json" % pid,
            "replay_cmd_template": "./verif check %s --replay {path}" % pid,
            "engine": "manif-static",
            "level_claimed": {"category": c["level"], "text": c["text"], "design_ref": "DESIGN.md section " + c["design"]},
            "level_note": c["note"],
            "technique": c["technique"],
        })
    na = []
    for pid in props:
        if pid in CHECKS:
            continue
        if pid in NOT_APPLICABLE:
            na.append({"property_id": pid, "reason": NOT_APPLICABLE[pid]})
        else:
            na.append({"property_id": pid, "reason": PENDING.get(pid, "static check designed in DESIGN.md section 3 but not yet implemented and registered; not claimed until it is")})
    m = {
        "version": 1,
        "setup_cmd": "./verif setup",
        "hooks": {
            "guard": "MANIF_VERIF",
            "enable": "checks pass -DMANIF_VERIF to the front end; no hook commit exists (the clang plugin analyses the unmodified headers)",
            "baseline_off_cmd": "cmake --build /repo/_build -j16 && ctest --test-dir /repo/_build -j8 --timeout 900",
            "source_commits": [],
            "add_only": True,
        },
        "engines": [
            {"name": "manif-static", "path": "/verif/verif", "serves_properties": sorted(CHECKS),
             "kind_free_text": "static analysis only: generated compile-witness translation units (E1), a clang 14 frontend plugin over the instantiated AST/CFG (E2), Python rule checkers over the extracted facts (E3)"},
        ],
        "checks": checks,
        "not_applicable": na,
        "notes": "Technique family: static analysis. Exit 0 = held, 1 = VIOLATION, 2 = analysis broken (anchor vanished / rule instance count below floor). Genuine defects repaired in /repo are 'fix:' commits listed in known_findings.txt as 'fixed:' lines.",
    }
    with open(os.path.join(HERE, "MANIFEST.json"), "w") as fh:
        json.dump(m, fh, indent=1)
    print("MANIFEST.json: %d checks, %d not_applicable" % (len(checks), len(na)))


if __name__ == "__main__":
    main()
