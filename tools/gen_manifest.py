#!/opt/veriftools/pyvenv/bin/python
"""Regenerates /verif/MANIFEST.json from the table below (kept in one place so the
manifest stays valid while checks are added)."""
import json
import os

HERE = os.path.dirname(os.path.dirname(os.path.abspath(__file__)))

CHECKS = {
    "C19": dict(
        level="proof", design="3/C19",
        technique="static analysis: compile-witness matrix decided by the C++ type checker (clang -fsyntax-only; g++ in thorough), plus AST linkage rule R-ODR",
        text="Every cell of the finite matrix {documented API entry} x {group} x {float,double} x {owning, Map, Map<const>} x {access through the class, access through LieGroupBase&/TangentBase&} is a one-statement client function that the front end must accept; the quantifier of the property is this finite set of programs, so acceptance of all cells is a proof for the enumerated table. Table completeness is enforced against the public names in the headers; 'links' by R-ODR (no non-inline non-template external definition in a header).",
        note="Trusted: clang 14 (and g++ 12) front ends, system Eigen 3.4, external/tl. 'Forwards to the documented behaviour' is decided by C04's forwarding rule, not here. Quick: 8 group variants (R3, one 4-element Bundle); thorough: R1..R9, three Bundle layouts, and g++.",
    ),
}

NOT_APPLICABLE = {
    "C01": "Algebraic identity between closed-form coefficient code and matrix products over all real/floating inputs; needs symbolic evaluation plus a solver or floating-point error bounds (a different technique family). No clause is decidable from the shape of the code that is not already owned by C04/C05/C13.",
    "C18": "Reflexivity at large coordinates, threshold behaviour and symmetry of isApprox depend on floating-point values of log(Y^-1 X); nothing about them is visible in the shape of the code. The only structural facts (operator== forwards to isApprox) are covered by C04's forwarding table.",
}

PENDING = {
    # properties whose checks are designed (DESIGN.md section 3) but not yet registered;
    # they are listed under not_applicable with that reason until the check is committed.
}


def main():
    props = [json.loads(l)["id"] for l in open(os.path.join(HERE, "properties.jsonl"))]
    checks = []
    for pid in props:
        c = CHECKS.get(pid)
        if not c:
            continue
        checks.append({
            "property_id": pid,
            "quick_cmd": "./verif check %s --tier quick" % pid,
            "thorough_cmd": "./verif check %s --tier thorough" % pid,
            "evidence_file": "/verif/evidence/%s.json" % pid,
            "replay_cmd_template": "./verif check %s --replay {path}" % pid,
            "engine": "manif-static",
            "level_claimed": {"category": c["level"], "text": c["text"], "design_ref": "DESIGN.md section " + c["design"]},
            "level_note": c["note"],
            "technique": c["technique"],
        })
    na = []
    for pid in props:
        if pid in CHECKS:
            continue
        if pid in NOT_APPLICABLE:
            na.append({"property_id": pid, "reason": NOT_APPLICABLE[pid]})
        else:
            na.append({"property_id": pid, "reason": PENDING.get(pid, "static check designed in DESIGN.md section 3 but not yet implemented and registered; not claimed until it is")})
    m = {
        "version": 1,
        "setup_cmd": "./verif setup",
        "hooks": {
            "guard": "MANIF_VERIF",
            "enable": "checks pass -DMANIF_VERIF to the front end; no hook commit exists (the clang plugin analyses the unmodified headers)",
            "baseline_off_cmd": "cmake --build /repo/_build -j16 && ctest --test-dir /repo/_build -j8 --timeout 900",
            "source_commits": [],
            "add_only": True,
        },
        "engines": [
            {"name": "manif-static", "path": "/verif/verif", "serves_properties": sorted(CHECKS),
             "kind_free_text": "static analysis only: generated compile-witness translation units (E1), a clang 14 frontend plugin over the instantiated AST/CFG (E2), Python rule checkers over the extracted facts (E3)"},
        ],
        "checks": checks,
        "not_applicable": na,
        "notes": "Technique family: static analysis. Exit 0 = held, 1 = VIOLATION, 2 = analysis broken (anchor vanished / rule instance count below floor). Genuine defects repaired in /repo are 'fix:' commits listed in known_findings.txt as 'fixed:' lines.",
    }
    with open(os.path.join(HERE, "MANIFEST.json"), "w") as fh:
        json.dump(m, fh, indent=1)
    print("MANIFEST.json: %d checks, %d not_applicable" % (len(checks), len(na)))


if __name__ == "__main__":
    main()
