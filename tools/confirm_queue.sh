#!/bin/sh
# usage: confirm_queue.sh "C07 a" "C07 b" "C14 a --tsan" ...   (sequential; waits for other confirmations to finish first)
while pgrep -f "seedflow.py confirm" >/dev/null; do sleep 20; done
for job in "$@"; do
  /opt/veriftools/pyvenv/bin/python /verif/tools/seedflow.py confirm $job >> /var/tmp/confirm_queue.log 2>&1
done
