// vt::Dual<N>: a minimal forward-mode dual-number scalar with the ceres::Jet interface
// (value `a`, N partials `v`, arithmetic, comparisons on the value, math functions found by
// ADL).  It exists only so that the compile-witness matrix can instantiate the whole manif
// API over a non-fundamental scalar (C12.b); nothing in /verif executes it.
#pragma once
#include <cmath>
#include <limits>
#include <ostream>
#include <Eigen/Core>

namespace vt {

template <int N>
struct Dual {
  double a;
  Eigen::Matrix<double, N, 1> v;
  Dual() : a(0) { v.setZero(); }
  Dual(const double& x) : a(x) { v.setZero(); }            // implicit, like ceres::Jet
  Dual(const double& x, int k) : a(x) { v.setZero(); v[k] = 1; }
  Dual(const double& x, const Eigen::Matrix<double, N, 1>& d) : a(x), v(d) {}
  Dual& operator+=(const Dual& o) { a += o.a; v += o.v; return *this; }
  Dual& operator-=(const Dual& o) { a -= o.a; v -= o.v; return *this; }
  Dual& operator*=(const Dual& o) { v = v * o.a + o.v * a; a *= o.a; return *this; }
  Dual& operator/=(const Dual& o) { v = (v - o.v * (a / o.a)) / o.a; a /= o.a; return *this; }
  Dual& operator+=(double s) { a += s; return *this; }
  Dual& operator-=(double s) { a -= s; return *this; }
  Dual& operator*=(double s) { a *= s; v *= s; return *this; }
  Dual& operator/=(double s) { a /= s; v /= s; return *this; }
};

template <int N> inline Dual<N> operator+(const Dual<N>& x) { return x; }
template <int N> inline Dual<N> operator-(const Dual<N>& x) { return Dual<N>(-x.a, -x.v); }
#define VT_BINOP(op)                                                                                  \
  template <int N> inline Dual<N> operator op(const Dual<N>& x, const Dual<N>& y) { Dual<N> r(x); r op##= y; return r; } \
  template <int N> inline Dual<N> operator op(const Dual<N>& x, double y) { Dual<N> r(x); r op##= y; return r; }       \
  template <int N> inline Dual<N> operator op(double x, const Dual<N>& y) { Dual<N> r(x); r op##= y; return r; }
VT_BINOP(+) VT_BINOP(-) VT_BINOP(*) VT_BINOP(/)
#undef VT_BINOP
#define VT_CMP(op)                                                                                     \
  template <int N> inline bool operator op(const Dual<N>& x, const Dual<N>& y) { return x.a op y.a; } \
  template <int N> inline bool operator op(const Dual<N>& x, double y) { return x.a op y; }            \
  template <int N> inline bool operator op(double x, const Dual<N>& y) { return x op y.a; }
VT_CMP(<) VT_CMP(<=) VT_CMP(>) VT_CMP(>=) VT_CMP(==) VT_CMP(!=)
#undef VT_CMP

template <int N> inline Dual<N> abs(const Dual<N>& x) { return x.a < 0 ? -x : x; }
template <int N> inline Dual<N> fabs(const Dual<N>& x) { return abs(x); }
template <int N> inline Dual<N> sqrt(const Dual<N>& x) { double s = std::sqrt(x.a); return Dual<N>(s, x.v / (2 * s)); }
template <int N> inline Dual<N> sin(const Dual<N>& x) { return Dual<N>(std::sin(x.a), x.v * std::cos(x.a)); }
template <int N> inline Dual<N> cos(const Dual<N>& x) { return Dual<N>(std::cos(x.a), -x.v * std::sin(x.a)); }
template <int N> inline Dual<N> tan(const Dual<N>& x) { double t = std::tan(x.a); return Dual<N>(t, x.v * (1 + t * t)); }
template <int N> inline Dual<N> asin(const Dual<N>& x) { return Dual<N>(std::asin(x.a), x.v / std::sqrt(1 - x.a * x.a)); }
template <int N> inline Dual<N> acos(const Dual<N>& x) { return Dual<N>(std::acos(x.a), -x.v / std::sqrt(1 - x.a * x.a)); }
template <int N> inline Dual<N> atan(const Dual<N>& x) { return Dual<N>(std::atan(x.a), x.v / (1 + x.a * x.a)); }
template <int N> inline Dual<N> atan2(const Dual<N>& y, const Dual<N>& x) {
  double d = x.a * x.a + y.a * y.a;
  return Dual<N>(std::atan2(y.a, x.a), (y.v * x.a - x.v * y.a) / d);
}
template <int N> inline Dual<N> exp(const Dual<N>& x) { double e = std::exp(x.a); return Dual<N>(e, x.v * e); }
template <int N> inline Dual<N> log(const Dual<N>& x) { return Dual<N>(std::log(x.a), x.v / x.a); }
template <int N> inline Dual<N> pow(const Dual<N>& x, double p) { return Dual<N>(std::pow(x.a, p), x.v * (p * std::pow(x.a, p - 1))); }
template <int N> inline Dual<N> floor(const Dual<N>& x) { return Dual<N>(std::floor(x.a)); }
template <int N> inline Dual<N> ceil(const Dual<N>& x) { return Dual<N>(std::ceil(x.a)); }
template <int N> inline bool isfinite(const Dual<N>& x) { return std::isfinite(x.a); }
template <int N> inline bool isnan(const Dual<N>& x) { return std::isnan(x.a); }
template <int N> inline bool isinf(const Dual<N>& x) { return std::isinf(x.a); }
template <int N> inline Dual<N> min(const Dual<N>& x, const Dual<N>& y) { return y < x ? y : x; }
template <int N> inline Dual<N> max(const Dual<N>& x, const Dual<N>& y) { return x < y ? y : x; }
template <int N> inline std::ostream& operator<<(std::ostream& s, const Dual<N>& x) { return s << "[" << x.a << " ; " << x.v.transpose() << "]"; }

}  // namespace vt

namespace std {
template <int N> struct numeric_limits<vt::Dual<N>> : numeric_limits<double> {
  static vt::Dual<N> epsilon() { return vt::Dual<N>(numeric_limits<double>::epsilon()); }
  static vt::Dual<N> max() { return vt::Dual<N>(numeric_limits<double>::max()); }
  static vt::Dual<N> min() { return vt::Dual<N>(numeric_limits<double>::min()); }
  static vt::Dual<N> lowest() { return vt::Dual<N>(numeric_limits<double>::lowest()); }
  static vt::Dual<N> quiet_NaN() { return vt::Dual<N>(numeric_limits<double>::quiet_NaN()); }
  static vt::Dual<N> infinity() { return vt::Dual<N>(numeric_limits<double>::infinity()); }
};
}  // namespace std

namespace Eigen {
template <int N> struct NumTraits<vt::Dual<N>> {
  typedef vt::Dual<N> Real;
  typedef vt::Dual<N> NonInteger;
  typedef vt::Dual<N> Nested;
  typedef vt::Dual<N> Literal;
  static vt::Dual<N> dummy_precision() { return vt::Dual<N>(1e-12); }
  static inline Real epsilon() { return Real(std::numeric_limits<double>::epsilon()); }
  static inline int digits10() { return NumTraits<double>::digits10(); }
  static inline Real highest() { return Real((std::numeric_limits<double>::max)()); }
  static inline Real lowest() { return Real(-(std::numeric_limits<double>::max)()); }
  enum { IsComplex = 0, IsInteger = 0, IsSigned = 1, ReadCost = 1, AddCost = 1, MulCost = 3, HasFloatingPoint = 1, RequireInitialization = 1 };
  template <bool Vectorized> struct Div { enum { Cost = 3 }; };
};
template <typename BinaryOp, int N> struct ScalarBinaryOpTraits<vt::Dual<N>, double, BinaryOp> { typedef vt::Dual<N> ReturnType; };
template <typename BinaryOp, int N> struct ScalarBinaryOpTraits<double, vt::Dual<N>, BinaryOp> { typedef vt::Dual<N> ReturnType; };
}  // namespace Eigen

// the two customisation points manif documents for automatic-differentiation scalars
// (cf. include/manif/ceres/constants.h, include/manif/ceres/ceres.h)
#include <manif/constants.h>
namespace manif {
template <int N> struct Constants<vt::Dual<N>> { static const vt::Dual<N> eps; };
template <int N> const vt::Dual<N> Constants<vt::Dual<N>>::eps = vt::Dual<N>(Constants<double>::eps);
}  // namespace manif
