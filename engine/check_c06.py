"""C06 - rjac/ljac, inverses, Adj, adj: structural necessary conditions (DESIGN.md 3/C06).
Clauses decided here: C06.b (every returned Jacobian-typed matrix is completely written, scratch
blocks are written before they are read, constant blocks in range, noalias operands disjoint).
Further clauses (R-TABLE smallAdj, R-JET switches, dispatch) are added by rules_table / rules_jet."""
from . import common as C
from . import outputs as O

JAC_FUNCS = {"rjac", "ljac", "rjacinv", "ljacinv", "adj", "smallAdj", "fillQ", "fillE",
             "rjac_impl", "ljac_impl", "rjacinv_impl", "ljacinv_impl", "adj_impl", "smallAdj_impl"}
RULES = ("R-DA", "R-BLOCK", "R-NOALIAS", "R-INTERNAL")


def structural(rep, args, prop="C06"):
    rr = O.run(O.default_specs(("own", "map")))
    fns = set((t, n) for (t, n, s, c, k) in rr.functions if s in JAC_FUNCS)
    n_bad = 0
    for it in rr.items:
        if it["rule"] in RULES and (it["tag"], it["fn"]) in fns:
            n_bad += 1
            rep.fail(O.finding(prop, it))
    nb = 0
    for b in rr.blocks:
        if b["short"] in JAC_FUNCS:
            nb += 1
            if b["ok"] is False:
                rep.fail(C.Finding(prop, "R-BLOCK", "%s@%s" % (b["fn"], b["text"]),
                                   "constant block access outside the matrix: " + b["text"], b["file"], b["line"]))
            else:
                rep.ok()
    rep.floor("jacobian_functions_analysed", len(fns), 150)
    rep.floor("jacobian_block_accesses", nb, 400)
    rep.section("structural", jacobian_functions=len(fns), block_accesses=nb, drivers=rr.tags,
                noalias_sites=rr.counts["noalias"])
    rep.ok(len(fns))
    for (t, n) in sorted(fns)[:12]:
        rep.sample({"function": n, "driver": t, "verdict": "returned matrix definitely assigned; scratch reads after writes; blocks in range"})
    return rr


def run(args):
    rep = C.Report("C06", "other", "definite assignment / bounds / aliasing dataflow on rjac, ljac, rjacinv, ljacinv, adj, smallAdj (+ table and jet rules)")
    rr = structural(rep, args)
    extra_rules = []
    try:
        from . import rules_table
        extra_rules += rules_table.check_smalladj(rep, "C06")
    except ImportError:
        rep.notes.append("R-TABLE (smallAdj = structure constants) not built yet")
    from . import rules_poly
    n_adj = rules_poly.check_adj(rep, "C06")
    rep.floor("poly_adj_cells", n_adj, 240)
    extra_rules.append("C06.d R-POLY.adj (exact): for every group X.adj() e_i = vee(T(X) E_i T(X^-1)) cell by cell over the polynomial ring modulo |rotation| = 1, i.e. X.adj() s IS the vector of X hat(s) X^-1 (and Adj(XY) = Adj(X)Adj(Y) follows with C01)")
    from . import rules_jet
    JAC = {("manif::SE2TangentBase", "ljac"), ("manif::SE2TangentBase", "rjacinv"), ("manif::SE2TangentBase", "ljacinv"),
           ("manif::SO3TangentBase", "ljac"), ("manif::SO3TangentBase", "ljacinv"), ("manif::SE3TangentBase", "fillQ"),
           ("manif::SGal3TangentBase", "ljac")}
    nf, no = rules_jet.check(rep, "C06", JAC)
    rep.floor("jet_switch_functions", nf, 7)
    rep.floor("jet_observables", no, 20)
    extra_rules.append("C06.c R-JET: for the precision switches of SE2 ljac/rjacinv/ljacinv, SO3 ljac/ljacinv, SE3 fillQ and SGal3 ljac the closed-form arm has no negative-order term and the two arms differ by less than 1e-7 (double) / 1e-3 (float) at the switch-over; R-DIV on their small-angle sides")
    from . import rules_series
    ns = rules_series.check(rep, "C06", {"rjac", "ljac", "rjacinv", "ljacinv", "adjexp"})
    rep.floor("series_cells", ns, 1180)
    extra_rules.append("C06.e R-SERIES: for SO2, SE2, SO3, SE3, SE_2_3, SGal3 the closed-form code of rjac / ljac / rjacinv / ljacinv, interpreted over truncated power series in the tangent (engine/jetnum.py), equals sum (-+ad)^k/(k+1)! resp. sum B_k (-+ad)^k/k! through order 4 cell by cell, and Adj(exp t) = sum ad^k/k! likewise, ad = smallAdj being the table proved against the bracket by C06.a/C07; Eigen's inverse() of I + O(t) is summarised by its Neumann series")
    rep.rules = [
        "C06.b R-DA: every Jacobian-typed local returned by rjac/ljac/rjacinv/ljacinv/adj/smallAdj (and fillQ/fillE's Ref output) has all cells written on every path; scratch blocks are read only after they were written",
        "C06.b R-BLOCK / R-NOALIAS on the same functions",
    ] + extra_rules
    rep.units = rr.tags
    rep.trusted = ["clang 14 AST / constant folding", "Eigen block API semantics"]
    rep.assumptions = ["NOT decided: rjac = series of ad beyond order 4, rjacinv*rjac = I, Adj(exp t) = ljac*rjacinv as numerical statements; rounding behaviour above the switch-over"]
    rep.checker_cmd = "manif-sa plugin (mode=funcs) + engine/rules_out.py (dataflow) + rules_table.py + rules_poly.py (R-POLY.adj) + rules_jet.py (R-JET) + jetnum.py / rules_series.py (R-SERIES)"
    return rep.finish()
