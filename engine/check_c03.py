"""C03 - log is the principal inverse of exp: structural necessary conditions at the small-angle switch
incl. the quaternion hemisphere cases (R-JET with sign cases), R-DIV, delegation, atan2 range (DESIGN.md 3/C03)."""
from . import astq as A
from . import common as C
from . import facts as FX
from . import rules_jet as RJ
from .check_c02 import delegation
from .sexp import sexp

LOG_FUNCS = {("manif::SE2Base", "log"), ("manif::SO3Base", "log"), ("manif::SO3TangentBase", "ljacinv")}
DELEGATION = {
    ("SE3", "manif::SE3Base"): {"log", "ljacinv"},
    ("SE_2_3", "manif::SE_2_3Base"): {"log", "ljacinv"},
    ("SGal3", "manif::SGal3Base"): {"log", "ljacinv"},
}


def run(args):
    rep = C.Report("C03", "other", "jet comparison incl. hemisphere sign cases (R-JET), guarded division, delegation, principal-value angle")
    nf, no = RJ.check(rep, "C03", LOG_FUNCS, obs="return")
    nf2, no2 = RJ.check(rep, "C03", {("manif::SO3TangentBase", "ljacinv")}, obs="outputs")
    nd = delegation(rep, "C03", DELEGATION, "log")
    # C03.c: planar angles are atan2(imag, real) (principal value by the C standard)
    na = 0
    for v, cls in (("SO2", "manif::SO2Base"), ("SE2", "manif::SE2Base")):
        F = FX.get(v)
        f = next((g for g in F.functions if g["kind"] == "inst" and g.get("cls") == cls and g["short"] == "angle" and "Map" not in str(g.get("clsargs"))), None)
        if f is None:
            rep.broke("anchor vanished: %s::angle" % cls)
            continue
        na += 1
        t = sexp(f.get("body"))
        # semantic form: evaluated over the coefficient symbols, angle() must be atan2(<what imag() returns>, <what real() returns>)
        from . import polyeval as P
        from . import symeval as S
        ok = False
        try:
            S.POLY = True
            sym = P.PolySym(F)
            n_rep = 2 if v == "SO2" else 4
            m = S.Mat(n_rep, 1)
            m.cells = [S.Aff.sym("a%d" % i) for i in range(n_rep)]
            X = S.Obj(S.View(m, 0, 0, n_rep, 1))
            fre = next(g for g in F.functions if g["kind"] == "inst" and g.get("cls") == cls and g["short"] == "real" and "Map" not in str(g.get("clsargs")))
            fim = next(g for g in F.functions if g["kind"] == "inst" and g.get("cls") == cls and g["short"] == "imag" and "Map" not in str(g.get("clsargs")))
            ang = sym.call_function(f, X, [])
            re_ = S.scalarize(sym.call_function(fre, X, []))
            im_ = S.scalarize(sym.call_function(fim, X, []))
            ok = isinstance(ang, P.AngleOf) and ang.s == im_ and ang.c == re_ and re_ != im_
        except Exception:   # noqa
            ok = False
        finally:
            S.POLY = False
        rep.obligation(ok, lambda f=f, t=t: C.Finding("C03", "R-FWD.angle", f["name"], "angle() is not atan2(imag(), real()): %s" % t[:160], f["file"], f["line"]))
    nh = RJ.half_turn(rep, "C03")
    rep.floor("half_turn_cases", nh, 2)
    from . import rules_series
    ns = rules_series.check(rep, "C03", {"log"})
    rep.floor("series_cells", ns, 30)
    rep.floor("switch_functions", nf, 3)
    rep.floor("observables_compared", no + no2, 4)
    rep.floor("delegations", nd, 3)
    rep.floor("angle_functions", na, 2)
    rep.rules = [
        "R-JET (C03.a): SO3::log - in each hemisphere case (w > 0, w < 0, with |v| = sin(th), w = +-cos(th)) the small-angle arm equals the limit of the closed-form arm (q and -q have the same logarithm at the switch-over)",
        "R-JET / R-DIV (C03.b): SE2::log and SO3Tangent::ljacinv (V^-1) arms meet within 1e-9 (double) / 1e-4 (float); no division by a vanishing quantity on the small-angle side",
        "R-FWD.delegation: SE3 / SE_2_3 / SGal3 log obtain the rotation part from SO3::log and the linear parts through ljacinv of that tangent",
        "R-FWD.angle (C03.c): SO2/SE2 angle() = atan2(imag, real)",
        "R-JET.halfturn (C03.e): SO3::log evaluated at the exact half turn (quaternion (v, +-0), |v| = 1; every comparison decided by exact substitution) returns pi * v",
        "R-SERIES.log (C03.d): for SO2, SE2, SO3, SE3, SE_2_3, SGal3 the code of log applied to the code of exp, both interpreted over truncated power series in the tangent (engine/jetnum.py; closed-form arms, hemisphere w > 0), gives log(exp t) = t + O(|t|^6) coefficient by coefficient: log inverts exp through order 5 at the origin, in every direction",
    ]
    rep.units = ["SO2/SE2/SO3/SE3/SE_2_3/SGal3 double drivers"]
    rep.trusted = ["sympy series / limits", "unit-norm invariant of valid elements (w^2 + |v|^2 = 1)", "clang AST"]
    rep.assumptions = ["NOT decided: exp(log X) = X and log(exp t) = t as numerical round trips and beyond order 5 of the Taylor expansion at the origin; behaviour near theta = pi; finiteness for all valid X"]
    rep.checker_cmd = "manif-sa plugin + engine/jeteval.py + engine/rules_jet.py (R-JET) + engine/jetnum.py + engine/rules_series.py (R-SERIES)"
    return rep.finish()
