"""Self-test of the checkers, both ways (DESIGN.md section 5): breaking mutants must be
reported (naming the mutated construct), neutral mutants must stay silent.  Mutants are
textual edits applied to a scratch copy of /repo's headers under /var/tmp (removed
afterwards); every mutant must still parse and instantiate (the plugin pass over the
all-API driver fails otherwise and the mutant is reported as invalid)."""
import importlib.util
import json
import os
import shutil
import subprocess
import sys
import time

from . import common as C

SCRATCH_ROOT = "/var/tmp/manif-verif.%d" % os.getpid()


def load_mutants():
    p = os.path.join(C.VERIF, "selftest", "mutants.py")
    spec = importlib.util.spec_from_file_location("mutants", p)
    m = importlib.util.module_from_spec(spec)
    spec.loader.exec_module(m)
    return m.MUTANTS


def make_tree(mid, edits, src=None):
    src = src or os.environ.get("VERIF_SELFTEST_SRC", "/repo")
    d = os.path.join(SCRATCH_ROOT, mid)
    shutil.rmtree(d, ignore_errors=True)
    os.makedirs(d)
    for sub in ("include", "external"):
        shutil.copytree(os.path.join(src, sub), os.path.join(d, sub))
    for f in ("CMakeLists.txt",):
        shutil.copy(os.path.join(src, f), os.path.join(d, f))
    if os.path.isdir(os.path.join(src, "cmake")):
        shutil.copytree(os.path.join(src, "cmake"), os.path.join(d, "cmake"))
    for (rel, old, new, nth) in edits:
        p = os.path.join(d, rel)
        s = open(p).read()
        idx = -1
        for _ in range(nth):
            idx = s.find(old, idx + 1)
            if idx < 0:
                raise RuntimeError("mutant %s: text to replace not found in %s (the source changed: update selftest/mutants.py): %r" % (mid, rel, old[:60]))
        s = s[:idx] + new + s[idx + len(old):]
        open(p, "w").write(s)
    return d


def run_one(m, jobs):
    t0 = time.time()
    out = {"id": m["id"], "kind": m["kind"], "results": {}, "ok": True, "why": []}
    try:
        d = make_tree(m["id"], m["edits"])
    except RuntimeError as e:
        out["ok"] = False
        out["why"].append(str(e))
        return out
    env = dict(os.environ, VERIF_JOBS=str(jobs), VERIF_TIER="quick")
    try:
        for prop in m["props"]:
            p = subprocess.run([os.path.join(C.VERIF, "verif"), "check", prop, "--repo", d],
                               stdout=subprocess.PIPE, stderr=subprocess.STDOUT, env=env, cwd=C.VERIF)
            txt = p.stdout.decode("utf-8", "replace")
            out["results"][prop] = {"rc": p.returncode, "tail": txt.strip().splitlines()[-12:]}
            if m["kind"] == "breaking":
                if p.returncode != 1 or "VIOLATION property=%s" % prop not in txt:
                    out["ok"] = False
                    out["why"].append("%s: expected a violation, got rc=%d" % (prop, p.returncode))
                else:
                    for needle in m.get("expect", []):
                        if needle not in txt:
                            out["ok"] = False
                            out["why"].append("%s: report does not name %r" % (prop, needle))
            else:
                if p.returncode != 0:
                    out["ok"] = False
                    out["why"].append("%s: neutral mutant raised rc=%d" % (prop, p.returncode))
    finally:
        shutil.rmtree(d, ignore_errors=True)
        import hashlib
        alt = os.path.join(C.BUILD, "alt", hashlib.sha256(os.path.abspath(d).encode()).hexdigest()[:12])
        shutil.rmtree(alt, ignore_errors=True)
    out["wall_s"] = round(time.time() - t0, 1)
    return out


def run_for_prop(prop, parallel=4):
    """Thorough tier: the mutants that name `prop`, run against that property's check only.
    Returns a summary dict for the evidence file."""
    muts = []
    for m in load_mutants():
        if prop in m["props"]:
            m = dict(m)
            m["props"] = [prop]
            muts.append(m)
    if not muts:
        return {"mutants": 0}
    os.makedirs(SCRATCH_ROOT, exist_ok=True)
    try:
        jobs = max(2, C.NPROC // parallel)
        import concurrent.futures as cf
        with cf.ThreadPoolExecutor(max_workers=parallel) as ex:
            res = list(ex.map(lambda m: run_one(m, jobs), muts))
    finally:
        shutil.rmtree(SCRATCH_ROOT, ignore_errors=True)
    return {
        "mutants": len(res),
        "breaking_detected": sum(1 for r in res if r["kind"] == "breaking" and r["ok"]),
        "breaking_total": sum(1 for r in res if r["kind"] == "breaking"),
        "neutral_silent": sum(1 for r in res if r["kind"] != "breaking" and r["ok"]),
        "neutral_total": sum(1 for r in res if r["kind"] != "breaking"),
        "unexpected": [{"id": r["id"], "why": r["why"]} for r in res if not r["ok"]],
        "ids": [r["id"] for r in res],
    }


def run(filter_=None, parallel=4):
    muts = load_mutants()
    if filter_:
        muts = [m for m in muts if filter_ in m["id"] or filter_ in ",".join(m["props"])]
    os.makedirs(SCRATCH_ROOT, exist_ok=True)
    try:
        jobs = max(2, C.NPROC // parallel)
        import concurrent.futures as cf
        with cf.ThreadPoolExecutor(max_workers=parallel) as ex:
            res = list(ex.map(lambda m: run_one(m, jobs), muts))
    finally:
        shutil.rmtree(SCRATCH_ROOT, ignore_errors=True)
    bad = [r for r in res if not r["ok"]]
    for r in res:
        print("%-7s %-9s %-44s %s" % ("ok" if r["ok"] else "FAILED", r["kind"], r["id"],
                                     " ".join("%s:rc=%s" % (p, v["rc"]) for p, v in r["results"].items())))
        if not r["ok"]:
            for w in r["why"]:
                print("        " + w)
            for p, v in r["results"].items():
                for ln in v["tail"][-6:]:
                    print("        | " + ln[:220])
    C.ensure_dir(C.BUILD)
    with open(os.path.join(C.BUILD, "selftest.json"), "w") as fh:
        json.dump(res, fh, indent=1)
    nb = sum(1 for r in res if r["kind"] == "breaking")
    nn = len(res) - nb
    print("selftest: %d breaking mutants (%d detected), %d neutral mutants (%d silent)" % (
        nb, sum(1 for r in res if r["kind"] == "breaking" and r["ok"]), nn, sum(1 for r in res if r["kind"] != "breaking" and r["ok"])))
    return 0 if not bad else 1
