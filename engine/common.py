"""Shared plumbing for every check: paths, compiler flags, parallel runner,
evidence writer, known-findings handling, exit-code conventions.

Exit codes (DESIGN.md 1.1): 0 = held; 1 = violation (prints a VIOLATION line);
2 = analysis broken (anchor vanished, instance count below floor, tool failure).
"""
import concurrent.futures as cf
import hashlib
import json
import os
import re
import shutil
import subprocess
import sys
import time

VERIF = os.path.dirname(os.path.dirname(os.path.abspath(__file__)))
REPO = os.environ.get("VERIF_REPO", "/repo")
BUILD = os.path.join(VERIF, "build")
EVIDENCE = os.path.join(VERIF, "evidence")
REPLAYS = os.path.join(EVIDENCE, "replays")
TABLES = os.path.join(VERIF, "tables")
KNOWN_FINDINGS = os.path.join(VERIF, "known_findings.txt")
PLUGIN_SO = os.path.join(BUILD, "manif_sa.so")
NPROC = int(os.environ.get("VERIF_JOBS", str(os.cpu_count() or 4)))

CLANGXX = shutil.which("clang++") or "clang++"
GXX = shutil.which("g++") or "g++"


WORK = BUILD   # where scratch files / fact caches of this invocation live
if os.environ.get("VERIF_EVIDENCE_DIR"):
    # runs against a temporarily patched /repo (seeded changes) must not overwrite /verif/evidence
    EVIDENCE = os.environ["VERIF_EVIDENCE_DIR"]
    REPLAYS = os.path.join(EVIDENCE, "replays")
    WORK = os.path.join(BUILD, "seedrun")


def set_repo(path):
    """Analyse another tree (self-tests, seeded mutants).  Evidence of such a run never
    lands in /verif/evidence, which only ever describes /repo itself; caches are kept apart."""
    global REPO, EVIDENCE, REPLAYS, WORK
    REPO = os.path.abspath(path)
    if REPO != "/repo":
        WORK = os.path.join(BUILD, "alt", hashlib.sha256(REPO.encode()).hexdigest()[:12])
        EVIDENCE = os.path.join(WORK, "evidence")
        REPLAYS = os.path.join(EVIDENCE, "replays")


def include_flags():
    return ["-I" + os.path.join(REPO, "include"),
            "-I" + os.path.join(REPO, "external", "tl"),
            "-isystem", "/usr/include/eigen3",
            "-I" + os.path.join(VERIF, "witness")]


def base_flags(ndebug=False, std="c++11"):
    """Flags of the repository's own test build (from _build/build.ninja),
    minus optimisation; -DMANIF_VERIF is the (currently unused) hook guard."""
    f = ["-std=" + std, "-Wall", "-Wextra", "-Wno-unused-parameter",
         "-Wno-deprecated-declarations", "-DMANIF_VERIF"]
    f += ["-DNDEBUG"] if ndebug else ["-UNDEBUG"]
    return f + include_flags()


def tier():
    return os.environ.get("VERIF_TIER", "quick")


def seed():
    try:
        return int(os.environ.get("VERIF_SEED", "0"))
    except ValueError:
        return 0


def repo_rel(path):
    p = os.path.abspath(path)
    r = os.path.abspath(REPO)
    if p.startswith(r + os.sep):
        return p[len(r) + 1:]
    return path


def run(cmd, timeout=1800, cwd=None, env=None):
    p = subprocess.run(cmd, stdout=subprocess.PIPE, stderr=subprocess.PIPE,
                       cwd=cwd, env=env, timeout=timeout)
    return p.returncode, p.stdout.decode("utf-8", "replace"), p.stderr.decode("utf-8", "replace")


def pmap(fn, items, jobs=None):
    """Thread-pool map preserving order (the work is in subprocesses)."""
    items = list(items)
    if not items:
        return []
    with cf.ThreadPoolExecutor(max_workers=min(jobs or NPROC, len(items))) as ex:
        return list(ex.map(fn, items))


def ensure_dir(d):
    os.makedirs(d, exist_ok=True)
    return d


def scratch(name):
    """Per-invocation scratch dir under /verif/build (git-ignored)."""
    d = os.path.join(WORK, name)
    shutil.rmtree(d, ignore_errors=True)
    os.makedirs(d)
    return d


def repo_digest():
    """Content hash of everything a check may read in /repo."""
    h = hashlib.sha256()
    for root in ("include", "external/tl"):
        base = os.path.join(REPO, root)
        for dp, dn, fn in sorted(os.walk(base)):
            dn.sort()
            for f in sorted(fn):
                p = os.path.join(dp, f)
                h.update(p[len(REPO):].encode())
                with open(p, "rb") as fh:
                    h.update(fh.read())
    return h.hexdigest()[:16]


class AnalysisBroken(Exception):
    pass


class Finding:
    """One violated obligation. `key` is the stable identity used to match
    known findings: rule + site (function / instance), never a line number."""

    def __init__(self, prop, rule, site, message, file=None, line=None, detail=None):
        self.prop, self.rule, self.site, self.message = prop, rule, site, message
        self.file, self.line, self.detail = file, line, detail or {}

    @property
    def key(self):
        return "property=%s rule=%s site=%s" % (self.prop, self.rule, self.site)

    def text(self):
        loc = ""
        if self.file:
            loc = "%s:%s " % (repo_rel(self.file), self.line if self.line else "?")
        return "%s[%s] %s: %s" % (loc, self.rule, self.site, self.message)

    def to_json(self):
        return {"property": self.prop, "rule": self.rule, "site": self.site,
                "message": self.message, "file": repo_rel(self.file) if self.file else None,
                "line": self.line, "detail": self.detail}


def load_known_findings():
    """known_findings.txt lines:
         finding: property=C17 rule=R-LIN site=<site> :: <what fails>
         fixed: property=C19 <commit> <what failed>         (suppresses nothing)
    """
    out = {}
    if not os.path.exists(KNOWN_FINDINGS):
        return out
    for ln in open(KNOWN_FINDINGS):
        ln = ln.strip()
        if not ln.startswith("finding:"):
            continue
        body = ln[len("finding:"):].strip()
        key, _, what = body.partition(" :: ")
        out[key.strip()] = what.strip()
    return out


class Report:
    """Collects obligations, findings and evidence for one property check."""

    def __init__(self, prop, level, technique):
        self.prop, self.level, self.technique = prop, level, technique
        self.t0 = time.time()
        self.obligations = 0
        self.discharged = 0
        self.findings = []
        self.samples = []
        self.sections = {}
        self.notes = []
        self.observations = []
        self.trusted = []
        self.assumptions = []
        self.checker_cmd = ""
        self.rules = []
        self.units = []
        self.broken = []

    # -- recording ---------------------------------------------------------
    def ok(self, n=1):
        self.obligations += n
        self.discharged += n

    def fail(self, finding):
        self.obligations += 1
        self.findings.append(finding)

    def obligation(self, holds, finding_factory):
        if holds:
            self.ok()
        else:
            self.fail(finding_factory())

    def sample(self, s, limit=40):
        if len(self.samples) < limit:
            self.samples.append(s)

    def section(self, name, **kv):
        self.sections.setdefault(name, {}).update(kv)

    def broke(self, why):
        self.broken.append(why)

    def floor(self, name, count, minimum):
        """A rule that matches fewer instances than confirmed by hand is broken,
        never a pass."""
        self.section("floors", **{name: {"count": count, "floor": minimum}})
        if count < minimum:
            self.broke("rule instance count below floor: %s = %d < %d" % (name, count, minimum))

    # -- finishing ---------------------------------------------------------
    def finish(self):
        known = load_known_findings()
        new, listed = [], []
        # the same source construct is usually seen once per instantiation / driver TU:
        # report it once (first site), remember how many instances agreed
        uniq, dups = {}, {}
        for f in self.findings:
            k = (f.rule, f.file, f.line, f.message) if f.file and f.line else (f.rule, f.site)
            if k in uniq:
                dups[k] = dups.get(k, 1) + 1
                continue
            uniq[k] = f
        for k, f in uniq.items():
            if k in dups:
                f.detail["instances"] = dups[k]
        for f in uniq.values():
            (listed if f.key in known else new).append(f)
        wall = time.time() - self.t0
        ensure_dir(EVIDENCE)
        rdir = ensure_dir(os.path.join(REPLAYS, self.prop))
        for old in os.listdir(rdir):
            os.unlink(os.path.join(rdir, old))
        replay_paths = []
        for i, f in enumerate(new):
            p = os.path.join(rdir, "violation_%03d.json" % i)
            j = f.to_json()
            j["replay"] = "./verif check %s --only '%s'" % (self.prop, f.site)
            with open(p, "w") as fh:
                json.dump(j, fh, indent=1)
            replay_paths.append(p)
        cov = {
            "obligations": self.obligations,
            "discharged": self.discharged,
            "checker_cmd": self.checker_cmd or "./verif check %s" % self.prop,
            "trusted_base": self.trusted,
            "explanation": "; ".join(self.rules) if self.rules else self.technique,
            "rules": self.rules,
            "units_analysed": self.units,
            "samples": self.samples or ["(no obligations were generated)"],
            "exhaustive": True,
            "evaluations": self.obligations,
            "distinct_nontrivial": self.obligations,
            "rule": "each obligation is one statically decided rule instance on /repo's current source; all are distinct (keyed by site) and none is trivial (every one can fail under a source edit)",
            "known_findings_reported": [f.key for f in listed],
            "new_violations": [f.to_json() for f in new[:50]],
            "observations": self.observations,
            "notes": self.notes,
            "analysis_broken": self.broken,
            "repo_digest": repo_digest(),
        }
        cov.update(self.sections)
        ev = {"property_id": self.prop, "tier": tier() if tier() in ("quick", "thorough") else "quick",
              "seed": seed(), "level": self.level, "coverage": cov,
              "assumptions": self.assumptions, "wall_s": round(wall, 2),
              "violations": len(new)}
        with open(os.path.join(EVIDENCE, self.prop + ".json"), "w") as fh:
            json.dump(ev, fh, indent=1)
        print("[%s] obligations=%d discharged=%d new_violations=%d known=%d wall=%.1fs" % (
            self.prop, self.obligations, self.discharged, len(new), len(listed), wall))
        for f in listed:
            print("KNOWN-FINDING: property=%s %s :: %s" % (self.prop, f.text(), known[f.key]))
        for b in self.broken:
            print("ANALYSIS-BROKEN property=%s: %s" % (self.prop, b))
        if self.broken and not new:
            return 2
        if new:
            for f, p in zip(new, replay_paths):
                print("  " + f.text())
            for f, p in zip(new, replay_paths):
                print("VIOLATION property=%s replay=%s" % (self.prop, p))
            return 1
        return 0
