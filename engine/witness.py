"""E1: witness translation units and the -fsyntax-only runner.

A *cell* of the C19 matrix is (entry, group, scalar, kind, access) where
kind in {own, map, cmap} and access in {derived, base} (operands typed as the
concrete class, or as `const LieGroupBase<D>&` / `const TangentBase<D>&` the way
the generic-code documentation writes client code).

Cells are batched per (group, scalar, kind, access) into one TU.  A batch that
the front end rejects is re-run cell by cell (in parallel) so that every failing
cell is attributed exactly: clang diagnoses a failing template instantiation
only once per TU.
"""
import os
import re

from . import common as C
from .api_table import ENTRIES

SCALARS = {"double": "double", "float": "float"}

BUNDLE_LAYOUTS = {
    # name -> element templates.  Three layouts with differing Dim/DoF/RepSize per
    # position (quick uses B1).
    "B1": ["SE2", "SO3", "R4", "SGal3"],
    "B2": ["SO2", "SE_2_3", "R1", "SE3", "SO2"],
    "B3": ["R7"],
}


def group_cpp(fam_variant, S):
    """C++ type of the owning group for a family variant name."""
    fam = fam_variant
    if fam in ("SO2", "SE2", "SO3", "SE3", "SE_2_3", "SGal3"):
        return "manif::%s<%s>" % (fam, S)
    m = re.fullmatch(r"R(\d)", fam)
    if m:
        return "manif::R%s<%s>" % (m.group(1), S)
    if fam in BUNDLE_LAYOUTS:
        return "manif::Bundle<%s, %s>" % (S, ", ".join("manif::" + e for e in BUNDLE_LAYOUTS[fam]))
    raise KeyError(fam)


def family_of(variant):
    if re.fullmatch(r"R\d", variant):
        return "Rn"
    if variant in BUNDLE_LAYOUTS:
        return "Bundle"
    return variant


PRELUDE = r"""
#include <complex>
#include <iostream>
#include <sstream>
#include <vector>
#include <type_traits>
%(extra_includes)s
#include <manif/manif.h>

namespace vt {
template <class A> inline void use(const A&) {}
// docs/pages/cpp/Writing-generic-code.md, "Small example" (with the doc's
// g::DoF typo read as Derived::DoF)
template <typename Derived>
void vt_generic_print(const manif::LieGroupBase<Derived>& g, std::ostream& os)
{
  os << "Degrees of freedom: " << Derived::DoF << "\n"
     << "Underlying representation vector size: " << Derived::RepSize << "\n"
     << "Current values: " << g << "\n";
}
// "Multiple templated arguments"
template <typename DerivedA, typename DerivedB>
typename DerivedA::Scalar
vt_ominus_sq_norm(const manif::LieGroupBase<DerivedA>& state,
                  const manif::LieGroupBase<DerivedB>& state_other)
{
  return (state-state_other).squaredWeightedNorm();
}
}  // namespace vt
"""


def kind_types(kind):
    if kind == "own":
        return "G", "T"
    if kind == "map":
        return "Eigen::Map<G>", "Eigen::Map<T>"
    if kind == "cmap":
        return "Eigen::Map<const G>", "Eigen::Map<const T>"
    raise KeyError(kind)


def cell_applicable(e, variant, kind, access="derived"):
    fam = family_of(variant)
    if access == "base" and (e["groups"] is not None or "d" in e["flags"]):
        return False  # per-group members are not part of LieGroupBase / TangentBase
    if e["groups"] is not None and fam not in e["groups"]:
        return False
    if fam in e["not_groups"]:
        return False
    if "m" in e["flags"] and kind == "cmap":
        return False
    if "o" in e["flags"] and kind != "own":
        return False
    return True


def batch_source(variant, S, kind, access, entries, extra_includes="", scalar_decl=None):
    """Return (source text, {line_number_of_witness_start: entry id})."""
    G = group_cpp(variant, S)
    GK, TK = kind_types(kind)
    lines = [PRELUDE % {"extra_includes": extra_includes}]
    ns = "w_%s_%s_%s_%s" % (variant, re.sub(r"\W", "_", S), kind, access)
    lines.append("namespace %s {" % ns)
    lines.append("using vt::use; using vt::vt_generic_print; using vt::vt_ominus_sq_norm;")
    lines.append("using S = %s;" % (scalar_decl or S))
    lines.append("using G = %s;" % G)
    lines.append("using T = typename G::Tangent;")
    lines.append("using GK = %s;" % GK)
    lines.append("using TK = %s;" % TK)
    if access == "base":
        xt, tt = "manif::LieGroupBase<GK>", "manif::TangentBase<TK>"
    else:
        xt, tt = "GK", "TK"
    params = [
        "const %s& X" % xt, "const %s& Y" % xt, "const %s& t" % tt, "const %s& s" % tt,
        "const G& Xo", "const T& to",
        "typename G::Jacobian& J", "typename G::Jacobian& J2",
        "Eigen::Matrix<S, G::Dim, G::DoF>& Jvm", "Eigen::Matrix<S, G::Dim, G::Dim>& Jvv",
        "const typename G::Vector& v", "const S sc", "const int i",
        "const typename T::LieAlg& alg", "const typename G::DataType& xc",
        "const typename T::DataType& tc", "std::ostream& os", "const std::vector<G>& pts",
    ]
    if kind != "cmap":
        params += ["%s& Xm" % xt, "%s& tm" % tt]
    sig = ", ".join(params)
    text = "\n".join(lines) + "\n"
    index = {}
    n = text.count("\n") + 1
    for k, e in enumerate(entries):
        fn = "void w%d_%s(%s)\n{ %s }\n" % (k, re.sub(r"\W", "_", e["id"]), sig, e["body"])
        index[n] = e["id"]
        text += fn
        n += fn.count("\n")
    text += "}  // namespace\n"
    return text, index


def compile_syntax_only(path, flags, compiler=None):
    cc = compiler or C.CLANGXX
    if cc.endswith("g++") and not cc.endswith("clang++"):
        cmd = [cc, "-fsyntax-only", "-fmax-errors=0"] + flags + [path]
    else:
        cmd = [cc, "-fsyntax-only", "-ferror-limit=0"] + flags + [path]
    rc, out, err = C.run(cmd, timeout=900)
    return rc, err, cmd


_DIAG = re.compile(r"^(?P<file>[^:\s]+):(?P<line>\d+):(?P<col>\d+): (?P<kind>error|fatal error): (?P<msg>.*)$")


def first_repo_error(stderr):
    """First error diagnostic, preferring a location inside /repo."""
    first = None
    for ln in stderr.splitlines():
        m = _DIAG.match(ln)
        if not m:
            continue
        d = m.groupdict()
        d["line"] = int(d["line"])
        if first is None:
            first = d
        if os.path.abspath(d["file"]).startswith(os.path.abspath(C.REPO) + os.sep):
            return d
    return first


class Cell:
    __slots__ = ("entry", "variant", "scalar", "kind", "access", "ok", "diag", "cmd", "expect_fail")

    def __init__(self, entry, variant, scalar, kind, access):
        self.entry, self.variant, self.scalar, self.kind, self.access = entry, variant, scalar, kind, access
        self.ok, self.diag, self.cmd = None, None, None

    @property
    def site(self):
        return "%s/%s/%s/%s/%s" % (self.entry["id"], self.variant, self.scalar, self.kind, self.access)


def attribute_errors(stderr, tu_path, index):
    """Map each error diagnostic group (error + its notes) of a batch TU to the
    witness function whose lines contain the first location inside the TU.
    Returns {entry_id: diag}, plus the number of groups that could not be attributed."""
    starts = sorted(index)
    def owner(line):
        o = None
        for s0 in starts:
            if s0 <= line:
                o = s0
            else:
                break
        return index.get(o)
    groups, cur = [], None
    loc = re.compile(r"^(?P<file>[^:\s]+):(?P<line>\d+):(?P<col>\d+): (?P<kind>error|fatal error|note|warning): (?P<msg>.*)$")
    for ln in stderr.splitlines():
        m = loc.match(ln)
        if not m:
            continue
        d = m.groupdict()
        d["line"] = int(d["line"])
        if d["kind"] in ("error", "fatal error"):
            cur = {"err": d, "locs": [d]}
            groups.append(cur)
        elif d["kind"] == "note" and cur is not None:
            cur["locs"].append(d)
        elif d["kind"] == "warning":
            cur = None
    out, unattributed = {}, 0
    tu = os.path.abspath(tu_path)
    for g in groups:
        ent = None
        for d in g["locs"]:
            if os.path.abspath(d["file"]) == tu:
                ent = owner(d["line"])
                if ent:
                    break
        if ent is None:
            unattributed += 1
            continue
        if ent not in out:
            # prefer the first location inside /repo for the report
            rd = None
            for d in g["locs"]:
                if os.path.abspath(d["file"]).startswith(os.path.abspath(C.REPO) + os.sep):
                    rd = d
                    break
            e = dict(rd or g["err"])
            e["msg"] = g["err"]["msg"]
            out[ent] = e
    return out, unattributed


def run_matrix(variants, scalars, kinds, accesses, workdir, flags, entries=None,
               extra_includes="", scalar_decls=None, compiler=None, only=None):
    """Compile the whole matrix; returns (cells, n_batches, n_compiles).

    A rejected batch is *peeled*: the witnesses that the diagnostics attribute
    errors to are recorded as rejected and removed, and the rest is compiled
    again, until the remainder is accepted (a shared failing instantiation is
    diagnosed once per TU, so a later witness may only show up in the next
    round).  Every cell therefore ends with an exact verdict from the compiler."""
    entries = entries if entries is not None else ENTRIES
    batches = []
    for v in variants:
        for s in scalars:
            for k in kinds:
                for a in accesses:
                    es = [e for e in entries if cell_applicable(e, v, k, a)]
                    if only:
                        es = [e for e in es if only in "%s/%s/%s/%s/%s" % (e["id"], v, s, k, a)]
                    if es:
                        batches.append((v, s, k, a, es))
    ncompiles = [0]

    def write_and_compile(v, s, k, a, es, tag):
        src, index = batch_source(v, s, k, a, es, extra_includes,
                                  (scalar_decls or {}).get(s))
        p = os.path.join(workdir, "w_%s_%s_%s_%s_%s.cc" % (v, re.sub(r"\W", "_", s), k, a, tag))
        with open(p, "w") as fh:
            fh.write(src)
        rc, err, cmd = compile_syntax_only(p, flags, compiler)
        ncompiles[0] += 1
        return rc, err, cmd, p, index

    def do_batch(b):
        v, s, k, a, es = b
        cells = {e["id"]: Cell(e, v, s, k, a) for e in es}
        remaining = list(es)
        rnd = 0
        while remaining:
            rc, err, cmd, p, index = write_and_compile(v, s, k, a, remaining, "r%d" % rnd)
            if rc == 0:
                for e in remaining:
                    cells[e["id"]].ok, cells[e["id"]].cmd = True, cmd
                os.unlink(p)
                break
            bad, unattr = attribute_errors(err, p, index)
            if not bad:
                # cannot attribute: fall back to one compile per witness
                for e in remaining:
                    tag = "s_" + re.sub(r"\W", "_", e["id"])
                    rc1, err1, cmd1, p1, _ = write_and_compile(v, s, k, a, [e], tag)
                    c = cells[e["id"]]
                    c.ok, c.cmd = (rc1 == 0), cmd1
                    if rc1 != 0:
                        c.diag = first_repo_error(err1) or {"file": p1, "line": 0, "msg": (err1.strip().splitlines() or ["compiler failed"])[0]}
                    else:
                        os.unlink(p1)
                break
            for eid, d in bad.items():
                c = cells[eid]
                c.ok, c.diag = False, d
                # single-witness command line for the replay
                c.cmd = cmd
            remaining = [e for e in remaining if e["id"] not in bad]
            rnd += 1
        return list(cells.values())

    results = C.pmap(do_batch, batches)
    cells = [c for cs in results for c in cs]
    return cells, len(batches), ncompiles[0]
