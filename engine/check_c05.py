"""C05 - analytic Jacobians: storage-level necessary conditions (DESIGN.md 3/C05).
Decides that every requested Jacobian output is completely and safely written; does NOT
decide that the written values are the derivative."""
from . import common as C
from . import outputs as O

RULES = ("R-DA", "R-GUARD", "R-BLOCK", "R-NOALIAS", "R-FORWARD", "R-INTERNAL")


def run(args):
    rep = C.Report("C05", "other", "definite-assignment / guard / bounds / aliasing dataflow over every optional Jacobian output")
    rr = O.run(O.default_specs(("own", "map")))
    opt_fns = set((t, n) for (t, n, s, c, k) in rr.functions if k > 0)
    n_bad = 0
    for it in rr.items:
        if it["rule"] not in RULES or (it["tag"], it["fn"]) not in opt_fns:
            continue
        if args.only and args.only not in it["fn"]:
            continue
        n_bad += 1
        rep.fail(O.finding("C05", it))
    nb = 0
    for b in rr.blocks:
        if (b["tag"], b["fn"]) not in opt_fns:
            continue
        nb += 1
        if b["ok"] is False:
            rep.fail(C.Finding("C05", "R-BLOCK", "%s@%s" % (b["fn"], b["text"]),
                               "constant block access outside the object (Eigen's own check is compiled out under NDEBUG): " + b["text"],
                               b["file"], b["line"]))
        else:
            rep.ok()
    tot = rr.counts["deref"] + rr.counts["exits"] + rr.counts["forwards"] + rr.counts["noalias"] + rr.counts["reads"]
    rep.ok(max(0, tot - n_bad))
    from . import rules_poly
    n_poly = rules_poly.check_jacobians(rep, "C05")
    rep.floor("poly_jacobian_cells", n_poly, 800)
    from . import rules_jet
    nfj, noj = rules_jet.check(rep, "C05", {("manif::SE2TangentBase", "exp"), ("manif::SO3TangentBase", "exp"), ("manif::SO3Base", "log")}, obs="outputs")
    from . import rules_series
    nser = rules_series.check(rep, "C05", {"expjac", "logjac"})
    rep.floor("series_jacobian_cells", nser, 472)
    from . import rules_deriv
    nder = rules_deriv.check(rep, "C05")
    rep.floor("derivative_rows", nder, 140)
    rep.floor("jet_switch_functions", nfj, 3)
    rep.floor("jet_jacobian_observables", noj, 8)
    rep.floor("functions_with_optional_outputs", len(opt_fns), 500)
    rep.floor("optional_output_params", rr.counts["opt_params"], 900)
    rep.floor("optional_derefs", rr.counts["deref"], 400)
    rep.floor("forwarded_optionals", rr.counts["forwards"], 400)
    rep.section("interpreter", **dict(rr.counts), drivers=rr.tags, block_accesses_in_output_functions=nb,
                verified_exemptions=sorted(set(rr.exempt_notes))[:5])
    seen = set()
    for (t, n, s, c, k) in rr.functions:
        if k > 0 and (c, s) not in seen and len(seen) < 30:
            seen.add((c, s))
            rep.sample({"function": n, "optional_outputs": k, "verdict": "engaged => fully written at every exit; every dereference guarded"})
    rep.rules = [
        "R-DA: on every path, every optional Jacobian output that is engaged is written in all of its cells before the function returns, and no cell of it is read before it is written",
        "R-GUARD: every *J / J-> / J.value() is dominated by a test that J is engaged",
        "R-BLOCK: constant block / corner / coefficient accesses on Jacobian outputs lie inside the output's static extent",
        "R-NOALIAS: operands of A.noalias() = E living in the same matrix as A are disjoint from A",
        "C05.f R-POLY.jac (exact): for SO2, SE2, SO3, SE3, SE_2_3, SGal3, Rn the analytic Jacobians of inverse, compose (both) and act (both), evaluated over the polynomial ring, equal cell by cell the derivatives that follow from the matrix realisation and the hat/vee tables: J[inverse] = -Adj(X), J[compose]_X = Adj(Y^-1), J[compose]_Y = I, J[act]_X e_i = (T(X) E_i [p;e])[:Dim], J[act]_p = T(X)[:Dim,:Dim] - these operations' Jacobians ARE the true derivative",
        "C05.g R-SERIES.expjac/logjac: for SO2, SE2, SO3, SE3, SE_2_3, SGal3 the Jacobian written by exp(J), resp. by log(J) at exp(t), interpreted over truncated power series in the tangent (engine/jetnum.py), equals the series of the true derivative sum (-ad)^k/(k+1)!, resp. sum B_k (-ad)^k/k!, through order 4 cell by cell (ad = smallAdj, proved against the bracket by C07/C06)",
        "C05.h R-SERIES.deriv (first principles): for SO2 and SE2 every operation (inverse, compose, act, exp, log, rplus, lplus, rminus, lminus, between; each Jacobian also requested alone), and for SO3 inverse / compose / between / act / exp / log / rminus (rplus, lplus, lminus in the thorough tier), the Jacobian written by the code equals, through order 2 at the identity and for a symbolic direction d, the eta-coefficient of f(.. (+) eta d ..) (-) f(..) computed by interpreting the library's own code over truncated power series with a nilpotent perturbation (eta^2 = 0); the second operand runs along one fixed generic rational direction with a free magnitude; for rminus / lminus the pair is parametrised as (Y exp(e x), Y) resp. (exp(e x) Y, Y). rplus / lplus / rminus / lminus / between are one template for all groups (C04), so the formulas proved on the non-commutative SE2 are the ones every group executes",
        "C05.e R-JET: the Jacobian entries written on both sides of a small-angle switch (SE2Tangent::exp, SO3Tangent::exp, SO3::log) meet within 1e-7 (double) / 1e-3 (float) at the switch-over and have no negative-order term",
        "forwarding an optional (or a block of it) to a callee counts as the callee's proven write-set (modular summaries; *_impl helpers are summarised into their callers)",
    ]
    rep.units = rr.tags
    rep.trusted = ["clang 14 AST / template instantiation / integer constant folding", "Eigen block API semantics for the ~25 accessor names in engine/rules_out.py", "tl::optional"]
    rep.assumptions = ["NOT decided: that the transcendental closed forms (Jacobians of exp and log: rjac, rjacinv and the chain rules built from them) are the true derivative beyond order 4 of their Taylor expansion at the origin; rounding behaviour"]
    rep.checker_cmd = "manif-sa plugin (mode=funcs) + engine/rules_out.py (dataflow) + rules_poly.py (R-POLY.jac) + rules_jet.py (R-JET) + jetnum.py / rules_series.py (R-SERIES) + rules_deriv.py (R-SERIES.deriv)"
    return rep.finish()
