"""Abstract interpretation of instantiated manif function bodies (DESIGN.md section 2):

  R-GUARD   every dereference of an optional output is dominated by an engagement test
  R-DA      definite (full) assignment of fixed-size matrices / scalars before any read,
            and of every engaged optional output at every exit
  R-NI      non-interference: requesting an output never changes the value or another output
  R-NOALIAS operands of `A.noalias() = E` that live in A's root object are disjoint from A
  R-BLOCK   constant fixed-size block / coefficient accesses lie inside the object
  R-PTR     internal raw views Map<G>(host.data() + k) lie inside the host

The interpreter walks the *structured* AST exported by the plugin (the code base has no
goto); its state is a disjunction indexed by the engagement vector of the optional
parameters (path-sensitive exactly where the code branches on `if (J)`), each disjunct
holding a bitset of written cells per tracked object and a taint set per local.
Joins are intersections (cells) / unions (taints).  Anything not understood is treated
as a read of the objects it mentions (sound for R-DA; may raise, never hide, an alarm).
"""
import re

from . import astq as A
from . import common as C
from .sexp import sexp

MAXCELLS = 900

CORNERS = {"topLeftCorner", "topRightCorner", "bottomLeftCorner", "bottomRightCorner"}
BLOCKLIKE = CORNERS | {"block", "topRows", "bottomRows", "leftCols", "rightCols", "middleRows", "middleCols",
                       "row", "col", "head", "tail", "segment", "coeffRef", "coeff", "operator()", "operator[]",
                       "x", "y", "z", "w"}
IDENTITY_MEMBERS = {"noalias", "derived", "const_cast_derived", "eval", "matrix", "array"}
FULL_WRITERS = {"setZero", "setIdentity", "setConstant", "setOnes", "fill", "setRandom", "setLinSpaced", "setUnit"}
ASSIGN_OPS = {"=", "+=", "-=", "*=", "/="}
# helpers that complete an output the caller has prepared (Bundle *_impl): exempt from the
# "engaged => fully written at exit" obligation; their exact write-set is summarised into the caller
PARTIAL_WRITE_HELPERS = re.compile(r"_impl$")


class Dyn:
    """A sub-region with non-constant indices of root `root`."""

    def __init__(self, root):
        self.root = root


class Region:
    __slots__ = ("root", "r0", "c0", "nr", "nc", "noalias")

    def __init__(self, root, r0, c0, nr, nc, noalias=False):
        self.root, self.r0, self.c0, self.nr, self.nc, self.noalias = root, r0, c0, nr, nc, noalias

    def __repr__(self):
        return "%s[%d:%d,%d:%d]" % (self.root[2], self.r0, self.r0 + self.nr, self.c0, self.c0 + self.nc)


class Obj:
    """A tracked object: kind in {var, opt, ref}, dims."""

    def __init__(self, kind, decl, name, R, Cc):
        self.kind, self.decl, self.name, self.R, self.C = kind, decl, name, R, Cc
        self.key = (kind, decl, name)
        self.full = (1 << (R * Cc)) - 1

    def mask(self, r0, c0, nr, nc):
        m = 0
        for r in range(r0, r0 + nr):
            row = ((1 << nc) - 1) << (r * self.C + c0)
            m |= row
        return m


class St:
    """One disjunct."""
    __slots__ = ("eng", "cells", "taint", "guards", "dead", "zeros")

    def __init__(self):
        self.eng, self.cells, self.taint, self.guards, self.dead = {}, {}, {}, frozenset(), False
        self.zeros = {}     # decl -> cells known to hold exactly zero

    def copy(self):
        s = St()
        s.eng, s.cells, s.taint, s.guards, s.dead = dict(self.eng), dict(self.cells), dict(self.taint), self.guards, self.dead
        s.zeros = dict(self.zeros)
        return s

    def key(self):
        return tuple(sorted((k, v) for k, v in self.eng.items()))


def join(states):
    """Merge disjuncts with the same engagement vector."""
    out = {}
    for s in states:
        if s.dead:
            continue
        k = s.key()
        if k not in out:
            out[k] = s
            continue
        o = out[k]
        for d in set(o.cells) | set(s.cells):
            o.cells[d] = o.cells.get(d, 0) & s.cells.get(d, 0)
        for d in set(o.zeros) | set(s.zeros):
            o.zeros[d] = o.zeros.get(d, 0) & s.zeros.get(d, 0)
        for d in set(o.taint) | set(s.taint):
            o.taint[d] = o.taint.get(d, frozenset()) | s.taint.get(d, frozenset())
        o.guards = o.guards & s.guards
    return list(out.values())


class FnResult:
    def __init__(self):
        self.findings = []          # (rule, site_suffix, message, line)
        self.summary = {}           # param decl -> cells definitely written at every exit (when engaged)
        self.counts = {"deref": 0, "reads": 0, "writes": 0, "exits": 0, "noalias": 0, "opt_params": 0,
                       "tracked": 0, "returns": 0, "forwards": 0}
        self.returns = []           # (guards, taint, erased term, line)
        self.exit_shape = {}        # output name -> (R, C, cells definitely written, cells definitely zero, kind)
        self.ret_local = None       # (name, R, C, written, zero) of the returned tracked local, joined over returns
        self.exempt_notes = []


class Interp:
    def __init__(self, facts, f, summaries, exemptions):
        self.F, self.f, self.summaries, self.exempt = facts, f, summaries, exemptions
        self.res = FnResult()
        self.objs = {}   # decl -> Obj
        self.opt_params = {}
        self.ref_params = {}
        for p in f["params"]:
            if "opt" in p:
                R, Cc = p["opt"]
                if 0 < R * Cc <= MAXCELLS:
                    o = Obj("opt", p["decl"], p["name"], R, Cc)
                    self.objs[p["decl"]] = o
                    self.opt_params[p["decl"]] = o
            elif "ref" in p:
                R, Cc = p["ref"]
                if 0 < R * Cc <= MAXCELLS:
                    o = Obj("ref", p["decl"], p["name"], R, Cc)
                    self.objs[p["decl"]] = o
                    self.ref_params[p["decl"]] = o
        self.res.counts["opt_params"] = len(self.opt_params)
        self.local_scope = {}   # decl -> nesting guards at declaration

    # -- reporting ----------------------------------------------------------------------
    def report(self, rule, what, msg, n=None):
        ln = n.get("ln") if isinstance(n, dict) else None
        self.res.findings.append((rule, what, msg, ln or self.f["line"]))

    # -- regions ------------------------------------------------------------------------
    def deref_opt(self, n):
        """If n is `*J`, `J.operator->()`, `J.value()` for an optional *parameter* J return its decl."""
        if not isinstance(n, dict):
            return None
        k = n.get("k")
        if k == "CXXOperatorCallExpr" and n.get("op") in ("*", "->") and n.get("cls") == "tl::optional":
            a = (n.get("ch") or [None, None])[1]
            if isinstance(a, dict) and a.get("k") == "DeclRefExpr" and a.get("decl") in self.opt_params:
                return a["decl"]
        if k == "CXXMemberCallExpr" and n.get("cls") == "tl::optional" and A.short(n.get("fn")) == "value":
            _, obj, _ = A.call_parts(n)
            if isinstance(obj, dict) and obj.get("k") == "DeclRefExpr" and obj.get("decl") in self.opt_params:
                return obj["decl"]
        return None

    def lval(self, n, sts, check=True):
        """Resolve n to Region / Dyn / None.  Performs R-GUARD checks on derefs it crosses."""
        n = A.strip(n)
        if not isinstance(n, dict):
            return None
        k = n.get("k")
        if k == "DeclRefExpr":
            o = self.objs.get(n.get("decl"))
            if o is None or o.kind == "opt":
                return None
            return Region(o.key, 0, 0, o.R, o.C)
        d = self.deref_opt(n)
        if d is not None:
            o = self.opt_params[d]
            if check:
                self.res.counts["deref"] += 1
                for s in sts:
                    if not s.dead and s.eng.get(d) is not True:
                        self.report("R-GUARD", o.name,
                                    "optional output '%s' is dereferenced on a path where it is not known to be engaged (undefined behaviour when the caller did not request it)" % o.name, n)
                        break
            return Region(o.key, 0, 0, o.R, o.C)
        if k == "CXXMemberCallExpr" or (k == "CXXOperatorCallExpr" and n.get("op") in ("()", "[]")):
            fn, obj, args = A.call_parts(n)
            name = A.short(fn)
            if k == "CXXOperatorCallExpr":
                name = "operator" + n["op"]
            if obj is None:
                return None
            if name in IDENTITY_MEMBERS:
                r = self.lval(obj, sts, check)
                if isinstance(r, Region) and name == "noalias":
                    r = Region(r.root, r.r0, r.c0, r.nr, r.nc, True)
                return r
            if name in BLOCKLIKE and str(n.get("cls", "")).startswith("Eigen::"):
                base = self.lval(obj, sts, check)
                if base is None:
                    return None
                if isinstance(base, Dyn):
                    return base
                sub = subregion(name, n.get("targs") or [], args, base.nr, base.nc)
                if sub is None:
                    return Dyn(base.root)
                r0, c0, nr, nc = sub
                return Region(base.root, base.r0 + r0, base.c0 + c0, nr, nc)
        return None

    def obj_of(self, root):
        return self.objs[root[1]]

    # -- state ops ----------------------------------------------------------------------
    def write(self, reg, sts, taint, n, partial_mask=None, zero=False):
        self.res.counts["writes"] += 1
        o = self.obj_of(reg.root)
        if reg.r0 < 0 or reg.c0 < 0 or reg.r0 + reg.nr > o.R or reg.c0 + reg.nc > o.C:
            return  # R-BLOCK reports it
        m = o.mask(reg.r0, reg.c0, reg.nr, reg.nc) if partial_mask is None else partial_mask
        whole = (m == o.full)
        for s in sts:
            if s.dead:
                continue
            s.cells[o.decl] = s.cells.get(o.decl, 0) | m
            s.zeros[o.decl] = (s.zeros.get(o.decl, 0) | m) if zero else (s.zeros.get(o.decl, 0) & ~m)
            t = taint | s.guards
            if o.kind == "opt":
                t = t - {o.decl}
                bad = {x for x in t if x != o.decl}
                if bad:
                    names = ", ".join(sorted(self.opt_params[b].name for b in bad if b in self.opt_params))
                    self.ni_pending.append((o.name, "value written to output '%s' depends on whether '%s' was requested" % (o.name, names), n))
            else:
                s.taint[o.decl] = t if whole else (s.taint.get(o.decl, frozenset()) | t)

    def read_region(self, reg, sts, n):
        self.res.counts["reads"] += 1
        o = self.obj_of(reg.root)
        if reg.r0 < 0 or reg.c0 < 0 or reg.r0 + reg.nr > o.R or reg.c0 + reg.nc > o.C:
            return frozenset()
        m = o.mask(reg.r0, reg.c0, reg.nr, reg.nc)
        t = frozenset()
        for s in sts:
            if s.dead:
                continue
            have = s.cells.get(o.decl, 0)
            if o.kind == "ref":
                pass
            if (have & m) != m:
                what = "optional output" if o.kind == "opt" else ("Ref output" if o.kind == "ref" else "local")
                self.report("R-DA", o.name,
                            "%s '%s' is read at cells %s before they are written on every path (indeterminate value%s)" % (
                                what, o.name, cells_text(o, m & ~have), "; result depends on the caller's buffer" if o.kind != "var" else ""), n)
                break
        for s in sts:
            if not s.dead:
                t |= s.taint.get(o.decl, frozenset())
        return t

    # -- optional-typed argument expressions --------------------------------------------------
    def is_optional_expr(self, n):
        n = A.strip(n)
        if not isinstance(n, dict):
            return False
        if n.get("k") in ("CXXConstructExpr", "CXXTemporaryObjectExpr", "CXXFunctionalCastExpr") and str(n.get("cls", "")) == "tl::optional":
            return True
        if n.get("k") == "DeclRefExpr" and (n.get("decl") in self.opt_params or n.get("name") == "_"):
            return True
        if n.get("k") == "ConditionalOperator":
            ch = n.get("ch") or []
            return len(ch) == 3 and (self.is_optional_expr(ch[1]) or self.is_optional_expr(ch[2]))
        ty = self.F.ty(n)
        return "optional<" in ty or ty.endswith("OptJacobianRef")

    def opt_arg(self, n, sts):
        """Region denoted by an optional-typed argument expression, or None for an empty optional.
        Returns (region_or_None, taint, understood)."""
        raw = n
        n = A.strip(n)
        if not isinstance(n, dict):
            return None, frozenset(), True
        k = n.get("k")
        if k == "DeclRefExpr":
            if n.get("decl") in self.opt_params:
                o = self.opt_params[n["decl"]]
                return Region(o.key, 0, 0, o.R, o.C), frozenset(), True
            return None, frozenset(), True   # `_` or another empty optional object
        if k in ("CXXConstructExpr", "CXXTemporaryObjectExpr", "CXXFunctionalCastExpr", "InitListExpr", "CXXScalarValueInitExpr"):
            ch = [c for c in (n.get("ch") or []) if not (isinstance(c, dict) and c.get("k") == "CXXDefaultArgExpr")]
            if not ch:
                return None, frozenset(), True
            c = unwrap_ref(n)
            if c is n:
                return None, frozenset(), False
            if isinstance(c, dict) and (c.get("k") in ("DeclRefExpr", "ConditionalOperator") and self.is_optional_expr(c)):
                return self.opt_arg(c, sts)
            r = self.lval(c, sts)
            if isinstance(r, Region):
                return r, frozenset(), True
            if isinstance(c, dict) and c.get("k") in ("CXXConstructExpr", "CXXTemporaryObjectExpr", "InitListExpr") and not c.get("ch"):
                return None, frozenset(), True
            return None, frozenset(), False
        if k == "CXXMemberCallExpr":
            # conversion operators etc.
            fn, obj, args = A.call_parts(n)
            r = self.lval(n, sts)
            if isinstance(r, Region):
                return r, frozenset(), True
            return None, frozenset(), False
        if k == "ConditionalOperator":
            cond, a, b = n["ch"]
            t = self.rd(cond, sts)
            pos, neg = self.refine(cond)
            ts = [s.copy() for s in sts]
            for s in ts:
                for d in pos:
                    s.eng[d] = True
            ra, ta, ua = self.opt_arg(a, ts)
            rb, tb, ub = self.opt_arg(b, sts)
            if rb is not None and ra is None:
                # J ? {} : block  -- inverted form
                return rb, t | tb, ub
            return ra, t | ta | tb, ua and ub
        return None, frozenset(), False

    # -- expression evaluation (rvalue context): returns taint ----------------------------
    def rd(self, n, sts):
        n = A.strip(n)
        if not isinstance(n, dict):
            return frozenset()
        k = n.get("k")
        if k in ("IntegerLiteral", "FloatingLiteral", "CXXBoolLiteralExpr", "StringLiteral", "CXXThisExpr",
                 "CXXNullPtrLiteralExpr", "PredefinedExpr"):
            return frozenset()
        if k == "DeclRefExpr":
            d = n.get("decl")
            if d in self.opt_params:
                return frozenset()   # the optional object itself (copied / tested), not its referee
            if d in self.objs:
                return self.read_region(self.lval(n, sts), sts, n)
            t = frozenset()
            for s in sts:
                if not s.dead:
                    t |= s.taint.get(d, frozenset())
            return t
        if k == "ConditionalOperator":
            cond, a, b = n["ch"]
            t = self.rd(cond, sts)
            pos, neg = self.refine(cond)
            ta_states = [s.copy() for s in sts]
            for s in ta_states:
                for d in pos:
                    s.eng[d] = True
            tb_states = [s.copy() for s in sts]
            for s in tb_states:
                for d in neg:
                    s.eng[d] = True
            eng_t = frozenset(pos) | frozenset(neg)
            return t | self.rd(a, ta_states) | self.rd(b, tb_states) | eng_t
        if k in ("BinaryOperator", "CompoundAssignOperator"):
            op = n.get("op", "")
            l, r = n["ch"]
            if op in ("=", "+=", "-=", "*=", "/=", "%=", "<<=", ">>=", "&=", "|=", "^="):
                tr = self.rd(r, sts)
                return self.assign(l, op, tr, sts, n)
            if op == ",":
                self.rd(l, sts)
                return self.rd(r, sts)
            return self.rd(l, sts) | self.rd(r, sts)
        if k == "UnaryOperator":
            c = n["ch"][0]
            if n.get("op") in ("++", "--"):
                t = self.rd(c, sts)
                return self.assign(c, "+=", t, sts, n)
            if n.get("op") == "&":
                # address-of a tracked object: treat as a read (conservative)
                return self.rd(c, sts)
            return self.rd(c, sts)
        if k in A.CALL_KINDS:
            return self.call(n, sts)
        if k == "InitListExpr":
            t = frozenset()
            for c in n.get("ch") or []:
                t |= self.rd(c, sts)
            return t
        # generic: union over children
        t = frozenset()
        for c in A.children(n):
            t |= self.rd(c, sts)
        return t

    def assign(self, l, op, taint_rhs, sts, n):
        """Scalar / builtin assignment."""
        ls = A.strip(l)
        reg = self.lval(ls, sts) if isinstance(ls, dict) else None
        if isinstance(reg, Region):
            if op != "=":
                taint_rhs |= self.read_region(reg, sts, n)
            self.write(reg, sts, taint_rhs, n)
            return taint_rhs
        if isinstance(reg, Dyn):
            return taint_rhs
        if isinstance(ls, dict) and ls.get("k") == "DeclRefExpr":
            d = ls.get("decl")
            for s in sts:
                if s.dead:
                    continue
                t = taint_rhs | s.guards
                if op != "=":
                    t |= s.taint.get(d, frozenset())
                s.taint[d] = t
            return taint_rhs
        return taint_rhs | self.rd(ls, sts)

    def call(self, n, sts):
        k = n.get("k")
        fn, obj, args = A.call_parts(n)
        name = A.short(fn) if fn else ""
        cls = str(n.get("cls", ""))
        if n.get("noret"):
            t = frozenset()
            for a in args:
                t |= self.rd(a, sts)
            for s in sts:
                s.dead = True
            return t
        # optional: bool test / has_value are not reads of the referee
        if cls == "tl::optional" and name in ("operator bool", "has_value") and obj is not None:
            o = A.strip(obj)
            if isinstance(o, dict) and o.get("k") == "DeclRefExpr" and o.get("decl") in self.opt_params:
                return frozenset([o["decl"]])
        # ---- Eigen-style assignment operators on regions ---------------------------------
        if k == "CXXOperatorCallExpr" and n.get("op") in ASSIGN_OPS and obj is not None:
            reg = self.lval(obj, sts)
            rhs = args[0] if args else None
            if isinstance(reg, Region):
                t = self.rd(rhs, sts)
                if reg.noalias:
                    self.check_noalias(reg, rhs, sts, n)
                if n["op"] != "=":
                    t |= self.read_region(reg, sts, n)
                self.write(reg, sts, t, n)
                return t
            if isinstance(reg, Dyn):
                return self.rd(rhs, sts)
            o = A.strip(obj)
            t = self.rd(rhs, sts)
            if isinstance(o, dict) and o.get("k") == "DeclRefExpr" and o.get("decl") not in self.objs:
                d = o.get("decl")
                for s in sts:
                    if not s.dead:
                        tt = t | s.guards
                        if n["op"] != "=":
                            tt |= s.taint.get(d, frozenset())
                        s.taint[d] = tt
                return t
            return t | self.rd(obj, sts)
        # ---- comma initialiser:  region << a, b, c ------------------------------------------
        if k == "CXXOperatorCallExpr" and n.get("op") == "<<" and obj is not None and cls.startswith("Eigen::"):
            reg = self.lval(obj, sts)
            if isinstance(reg, Region):
                t = frozenset()
                for a in args:
                    t |= self.rd(a, sts)
                self.write(reg, sts, t, n)
                return t
        # ---- in-place full writers ---------------------------------------------------------
        if k == "CXXMemberCallExpr" and obj is not None and cls.startswith("Eigen::") and (name in FULL_WRITERS or (name.startswith("set") and name not in ("setIdentity",) + tuple(FULL_WRITERS))):
            reg = self.lval(obj, sts)
            t = frozenset()
            for a in args:
                t |= self.rd(a, sts)
            if isinstance(reg, Region):
                self.write(reg, sts, t, n, zero=(name == "setZero"))
                return t
            if isinstance(reg, Dyn):
                return t
            return t | self.rd(obj, sts)
        # ---- region in rvalue context -------------------------------------------------------
        reg = self.lval(n, sts) if k in ("CXXMemberCallExpr", "CXXOperatorCallExpr") else None
        if isinstance(reg, Region):
            t = self.read_region(reg, sts, n)
            for a in args:
                t |= self.rd(a, sts)
            return t
        if isinstance(reg, Dyn):
            o = self.obj_of(reg.root)
            t = self.read_region(Region(reg.root, 0, 0, o.R, o.C), sts, n)
            for a in args:
                t |= self.rd(a, sts)
            return t
        # ---- general call: argument-wise -------------------------------------------------------
        t = frozenset()
        if obj is not None:
            t |= self.rd(obj, sts)
        callee = self.F.by_id.get(n.get("fid")) if n.get("inrepo") else None
        cparams = callee["params"] if callee else None
        ctor_optional = (cls == "tl::optional")
        for i, a in enumerate(args):
            p = cparams[i] if cparams and i < len(cparams) else None
            if p is not None and "opt" in p:
                reg, ta, understood = self.opt_arg(a, sts)
                tv = t
                t = t | ta   # only for this argument's own write; restored below (callee is non-interfering modularly)
                if not understood:
                    self.report("R-FORWARD", name, "optional argument %d of call to %s is not a recognised forwarding idiom" % (i, name), a if isinstance(a, dict) else n)
                if reg is not None:
                    self.res.counts["forwards"] += 1
                    mask = None
                    summ = self.summaries.get(callee["id"], {}).get(p["decl"])
                    pr, pc = p["opt"]
                    if (reg.nr, reg.nc) != (pr, pc):
                        self.report("R-BLOCK", name, "block of size %dx%d passed for a %dx%d optional output of %s" % (reg.nr, reg.nc, pr, pc, name), n)
                        t = tv
                        continue
                    o = self.obj_of(reg.root)
                    if summ is not None:
                        mask = 0
                        for r in range(pr):
                            for c in range(pc):
                                if summ >> (r * pc + c) & 1:
                                    mask |= 1 << ((reg.r0 + r) * o.C + reg.c0 + c)
                    if reg.r0 >= 0 and reg.c0 >= 0 and reg.r0 + reg.nr <= o.R and reg.c0 + reg.nc <= o.C:
                        self.write(reg, sts, t, n, partial_mask=mask)
                t = tv
                continue
            if p is not None and "ref" in p:
                reg = self.lval(unwrap_ref(a), sts)
                if isinstance(reg, Region):
                    self.write(reg, sts, t, n)
                    continue
                if isinstance(reg, Dyn):
                    continue
            if ctor_optional and self.is_optional_expr(a):
                continue
            t |= self.rd(a, sts)
        return t

    def check_noalias(self, reg, rhs, sts, n):
        self.res.counts["noalias"] += 1
        for x in A.walk(rhs):
            if x.get("k") not in ("DeclRefExpr", "CXXMemberCallExpr", "CXXOperatorCallExpr"):
                continue
            r = self.lval(x, sts, check=False)
            if isinstance(r, Dyn) and r.root == reg.root:
                self.report("R-NOALIAS", self.obj_of(reg.root).name,
                            "noalias() destination may overlap an operand with non-constant indices", n)
                return
            if isinstance(r, Region) and r.root == reg.root:
                if not (r.r0 + r.nr <= reg.r0 or reg.r0 + reg.nr <= r.r0 or r.c0 + r.nc <= reg.c0 or reg.c0 + reg.nc <= r.c0):
                    # the whole-object DeclRefExpr below a block call is seen too: only report maximal chains
                    if x.get("k") == "DeclRefExpr" and self.is_block_base(rhs, x):
                        continue
                    if self.deref_opt(x) is not None and self.is_block_base(rhs, x):
                        continue
                    self.report("R-NOALIAS", self.obj_of(reg.root).name,
                                "noalias() destination %r overlaps operand %r of the same object: the product is evaluated in place" % (reg, r), n)
                    return

    def is_block_base(self, rhs, target):
        """True when `target` occurs only as the object of a block-like call inside rhs."""
        for x in A.walk(rhs):
            if x.get("k") in ("CXXMemberCallExpr", "CXXOperatorCallExpr"):
                fn, obj, args = A.call_parts(x)
                nm = A.short(fn)
                if obj is not None and A.strip(obj) is target and (nm in BLOCKLIKE or nm in IDENTITY_MEMBERS):
                    return True
        return False

    # -- conditions -----------------------------------------------------------------------
    def refine(self, cond):
        """(decls engaged when cond is true, decls engaged when cond is false)"""
        c = A.strip(cond)
        if not isinstance(c, dict):
            return [], []
        k = c.get("k")
        if k in ("CXXMemberCallExpr",) and str(c.get("cls", "")) == "tl::optional" and A.short(c.get("fn")) in ("operator bool", "has_value"):
            _, obj, _ = A.call_parts(c)
            o = A.strip(obj)
            if isinstance(o, dict) and o.get("k") == "DeclRefExpr" and o.get("decl") in self.opt_params:
                return [o["decl"]], []
        if k == "UnaryOperator" and c.get("op") == "!":
            p, q = self.refine(c["ch"][0])
            return q, p
        if k == "BinaryOperator" and c.get("op") == "&&":
            p1, _ = self.refine(c["ch"][0])
            p2, _ = self.refine(c["ch"][1])
            return p1 + p2, []
        if k == "BinaryOperator" and c.get("op") == "||":
            _, q1 = self.refine(c["ch"][0])
            _, q2 = self.refine(c["ch"][1])
            return [], q1 + q2
        if k in ("CXXStaticCastExpr", "CXXFunctionalCastExpr", "CStyleCastExpr") and c.get("ch"):
            return self.refine(c["ch"][0])
        if k == "CXXOperatorCallExpr" and c.get("op") in ("!=", "==") and len(c.get("ch", [])) == 3:
            a, b = A.strip(c["ch"][1]), A.strip(c["ch"][2])
            for x, y in ((a, b), (b, a)):
                if isinstance(x, dict) and x.get("k") == "DeclRefExpr" and x.get("decl") in self.opt_params and "nullopt" in sexp(y):
                    return ([x["decl"]], []) if c["op"] == "!=" else ([], [x["decl"]])
        return [], []

    # -- statements -----------------------------------------------------------------------
    def stmt(self, n, sts):
        """Execute statement n on the list of disjuncts; returns the new list."""
        sts = [s for s in sts if not s.dead]
        if not isinstance(n, dict) or not sts:
            return sts
        k = n.get("k")
        if k == "CompoundStmt":
            for c in n.get("ch") or []:
                sts = self.stmt(c, sts)
            return sts
        if k == "DeclStmt":
            for d in n.get("decls") or []:
                if d.get("k") != "VarDecl":
                    continue
                self.decl(d, sts)
            return [s for s in sts if not s.dead]
        if k == "IfStmt":
            if n.get("init"):
                sts = self.stmt(n["init"], sts)
            t = self.rd(n.get("cond"), sts)
            pos, neg = self.refine(n.get("cond"))
            gl = frozenset(pos) | frozenset(neg) | frozenset(x for x in t if x in self.opt_params)
            then_in, else_in = [], []
            for s in sts:
                if s.dead:
                    continue
                a = s.copy()
                ok = True
                for d in pos:
                    if a.eng.get(d) is False:
                        ok = False
                    a.eng[d] = True
                if neg and not pos:
                    # then-branch of `if (!J)`: J disengaged (single test) ; for || of negations unknown
                    if len(neg) == 1:
                        if a.eng.get(neg[0]) is True:
                            ok = False
                        a.eng[neg[0]] = False
                a.guards = a.guards | gl
                if ok:
                    then_in.append(a)
                b = s.copy()
                ok = True
                for d in neg:
                    if b.eng.get(d) is False:
                        ok = False
                    b.eng[d] = True
                if pos and not neg and len(pos) == 1:
                    if b.eng.get(pos[0]) is True:
                        ok = False
                    b.eng[pos[0]] = False
                b.guards = b.guards | gl
                if ok:
                    else_in.append(b)
            g0 = sts[0].guards if sts else frozenset()
            then_out = self.stmt(n.get("then"), then_in)
            else_out = self.stmt(n.get("else"), else_in) if n.get("else") else else_in
            out = [s for s in then_out + else_out if not s.dead]
            then_live = any(not s.dead for s in then_out)
            else_live = any(not s.dead for s in else_out)
            for s in out:
                s.guards = g0
                # a branch that ended (return / raise) leaves the continuation control-dependent on the test
                if gl and then_live != else_live:
                    s.guards = s.guards | gl
            return join(out)
        if k == "ReturnStmt":
            e = n.get("e")
            t = self.rd(e, sts) if e is not None else frozenset()
            self.res.counts["returns"] += 1
            g = frozenset()
            for s in sts:
                if not s.dead:
                    g |= s.guards
            self.res.returns.append((g, t, self.erase(e), n.get("ln")))
            rl = unwrap_copy(e)
            if isinstance(rl, dict) and rl.get("k") == "DeclRefExpr" and rl.get("decl") in self.objs and self.objs[rl["decl"]].kind == "var":
                o = self.objs[rl["decl"]]
                w, z = o.full, o.full
                for s in sts:
                    if not s.dead:
                        w &= s.cells.get(o.decl, 0)
                        z &= s.zeros.get(o.decl, 0)
                if self.res.ret_local is not None and self.res.ret_local[0] == o.name:
                    w &= self.res.ret_local[3]
                    z &= self.res.ret_local[4]
                self.res.ret_local = (o.name, o.R, o.C, w, z)
            for s in sts:
                if not s.dead:
                    self.exit_state(s, n)
                    s.dead = True
            return []
        if k in ("ForStmt", "WhileStmt", "DoStmt", "CXXForRangeStmt"):
            if n.get("init"):
                sts = self.stmt(n["init"], sts)
            if n.get("var"):
                self.decl(n["var"], sts, loopvar=True)
            if n.get("range"):
                self.rd(n["range"], sts)
            if n.get("cond"):
                self.rd(n["cond"], sts)
            body_in = [s.copy() for s in sts]
            body_out = self.stmt(n.get("body"), body_in)
            if n.get("inc"):
                self.rd(n["inc"], body_out)
            return join([s for s in sts if not s.dead] + [s for s in body_out if not s.dead])
        if k == "SwitchStmt":
            t = self.rd(n.get("cond"), sts)
            body = n.get("body") or {}
            items = body.get("ch") or [] if body.get("k") == "CompoundStmt" else [body]
            outs = []
            has_default = False
            # each label starts a path from the switch-entry state
            for i, it in enumerate(items):
                if isinstance(it, dict) and it.get("k") in ("CaseStmt", "DefaultStmt"):
                    if it.get("k") == "DefaultStmt":
                        has_default = True
                    cur = [s.copy() for s in sts]
                    j = i
                    first = True
                    while j < len(items) and cur:
                        x = items[j]
                        while isinstance(x, dict) and x.get("k") in ("CaseStmt", "DefaultStmt"):
                            x = x.get("sub")
                        if isinstance(x, dict) and x.get("k") == "BreakStmt":
                            break
                        cur = self.stmt(x, cur)
                        j += 1
                    outs += cur
            if not has_default:
                outs += [s.copy() for s in sts]
            return join(outs)
        if k in ("BreakStmt", "ContinueStmt", "NullStmt"):
            return sts
        if k == "CXXTryStmt":
            for c in n.get("ch") or []:
                sts = self.stmt(c, sts)
            return sts
        if k == "CXXThrowExpr":
            self.rd((n.get("ch") or [None])[0], sts)
            for s in sts:
                s.dead = True
            return []
        # expression statement
        self.rd(n, sts)
        return [s for s in sts if not s.dead]

    def decl(self, d, sts, loopvar=False):
        init = d.get("init")
        dim = d.get("dim")
        ty = self.F.ty(d)
        tracked = False
        if not d.get("static") and not d.get("ref"):
            if dim and 0 < dim[0] * dim[1] <= MAXCELLS and not ty.startswith("Eigen::Map") and "Eigen::Ref" not in ty and "Block<" not in ty:
                self.objs[d["decl"]] = Obj("var", d["decl"], d["name"], dim[0], dim[1])
                tracked = True
            elif re.fullmatch(r"(const )?(double|float|int|unsigned int|long|unsigned long|bool)", ty) and not loopvar:
                self.objs[d["decl"]] = Obj("var", d["decl"], d["name"], 1, 1)
                tracked = True
        if tracked:
            self.res.counts["tracked"] += 1
        t = frozenset()
        has_value = False
        if init is not None:
            ic = A.strip(init)
            # `T x;` shows up as a default-construction CXXConstructExpr without arguments for class types
            if isinstance(ic, dict) and ic.get("k") == "CXXConstructExpr" and not ic.get("ch") and dim:
                has_value = False
            else:
                t = self.rd(init, sts)
                has_value = True
        if loopvar:
            has_value = True
        for s in sts:
            if s.dead:
                continue
            if tracked:
                o = self.objs[d["decl"]]
                s.cells[d["decl"]] = o.full if has_value else 0
                s.zeros[d["decl"]] = o.full if (has_value and _is_zero_init(init)) else 0
            s.taint[d["decl"]] = (t | s.guards) if has_value else frozenset()

    def erase(self, e):
        """Term of a return expression with optional-typed arguments erased."""
        def go(n):
            n = A.strip(n)
            if not isinstance(n, dict):
                return "nil"
            if self.is_optional_expr(n) or n.get("k") == "CXXDefaultArgExpr":
                return "_"
            if n.get("k") in A.CALL_KINDS:
                fn, obj, args = A.call_parts(n)
                parts = ([go(obj)] if obj is not None else []) + [go(a) for a in args]
                while parts and parts[-1] == "_":
                    parts.pop()
                nm = A.short(fn)
                if n.get("k") == "CXXOperatorCallExpr":
                    nm = "op" + n.get("op", "")
                ints = [str(t) for t in (n.get("targs") or []) if isinstance(t, int)]
                return "(%s%s %s)" % (nm, "<" + ",".join(ints) + ">" if ints else "", " ".join(parts))
            cs = [go(c) for c in A.children(n)]
            label = n.get("name") or n.get("op") or str(n.get("v", ""))
            if "iv" in n and n.get("k") not in ("DeclRefExpr",):
                return str(n["iv"])
            return "(%s:%s %s)" % (n.get("k"), label, " ".join(cs))
        return go(e) if e is not None else "void"

    def exit_state(self, s, n):
        self.res.counts["exits"] += 1
        for d, o in list(self.opt_params.items()) + list(self.ref_params.items()):
            have = s.cells.get(d, 0)
            if o.kind == "opt" and s.eng.get(d) is False:
                continue
            self.exit_cells.setdefault(d, []).append(have)
            self.exit_zeros.setdefault(d, []).append(s.zeros.get(d, 0))

    # -- driver --------------------------------------------------------------------------
    def run(self):
        f = self.f
        self.exit_cells = {}
        self.exit_zeros = {}
        self.ni_pending = []
        s0 = St()
        for d in self.opt_params:
            s0.eng[d] = None
        # constructor initialisers are evaluated first
        sts = [s0]
        for i in f.get("inits") or []:
            self.rd(i.get("init"), sts)
        body = f.get("body")
        if body is None:
            return self.res
        out = self.stmt(body, sts)
        for s in out:
            if not s.dead:
                self.exit_state(s, {"ln": f["line"]})
        # exit obligations / summaries
        partial_helper = bool(PARTIAL_WRITE_HELPERS.search(f["short"]))
        for d, o in list(self.opt_params.items()) + list(self.ref_params.items()):
            masks = self.exit_cells.get(d, [])
            definite = o.full
            for m in masks:
                definite &= m
            if not masks:
                definite = o.full   # no live exit where it is engaged
            self.res.summary[d] = definite
            dz = o.full
            for z in self.exit_zeros.get(d, []):
                dz &= z
            self.res.exit_shape[o.name] = (o.R, o.C, definite, dz if masks else 0, o.kind)
            if definite != o.full and not partial_helper:
                kind = "optional output" if o.kind == "opt" else "Ref output"
                self.report("R-DA", o.name,
                            "%s '%s' (%dx%d) is not fully written on every path where it is requested: cells %s keep whatever the caller left there" % (
                                kind, o.name, o.R, o.C, cells_text(o, o.full & ~definite)), {"ln": f["line"]})
        # R-NI on outputs: table exemptions are *verified*, not assumed
        if self.ni_pending:
            ver = self.exempt.get((f.get("cls"), f["short"]))
            ok, why = (ver(self.F, f) if ver else (False, ""))
            if ok:
                self.res.exempt_notes.append("%s: R-NI exemption verified (%s)" % (f["name"], why))
                self.res.counts["ni_exempt_verified"] = self.res.counts.get("ni_exempt_verified", 0) + 1
            else:
                for what, msg, n in self.ni_pending:
                    self.report("R-NI", what, msg + (" [exemption check failed: %s]" % why if ver else ""), n)
        # R-NI on the returned value
        rets = self.res.returns
        guarded = [r for r in rets if r[0]]
        if guarded:
            terms = set(r[2] for r in rets)
            if len(terms) != 1 or len(rets) < 2:
                names = ", ".join(sorted(set(self.opt_params[g].name for r in guarded for g in r[0] if g in self.opt_params)))
                self.report("R-NI", "return",
                            "a return statement is control-dependent on whether '%s' was requested and the returned expressions differ: the value depends on the requested outputs" % names,
                            {"ln": guarded[0][3]})
        for g, t, term, ln in rets:
            bad = [x for x in t if x in self.opt_params]
            if bad:
                names = ", ".join(sorted(self.opt_params[b].name for b in bad))
                self.report("R-NI", "return", "returned value depends on whether '%s' was requested" % names, {"ln": ln})
        return self.res


def _is_zero_init(init):
    """`M = M::Zero()` / `M(M::Zero())` initialisers."""
    n = unwrap_copy(init)
    return isinstance(n, dict) and n.get("k") in ("CallExpr", "CXXMemberCallExpr") and A.short(n.get("fn")) == "Zero" and str(n.get("cls", "")).startswith("Eigen::")


def unwrap_copy(n):
    """Peel copy/move/conversion constructions of Eigen matrices down to the source expression."""
    n = A.strip(n)
    for _ in range(8):
        if not (isinstance(n, dict) and n.get("k") in ("CXXConstructExpr", "CXXTemporaryObjectExpr", "CXXFunctionalCastExpr")):
            break
        ch = [c for c in (n.get("ch") or []) if not (isinstance(c, dict) and c.get("k") == "CXXDefaultArgExpr")]
        if len(ch) != 1:
            break
        n = A.strip(ch[0])
    return n


def unwrap_ref(n):
    """Peel Eigen::Ref / tl::optional constructions (conversions made when a block is passed to a
    Ref or optional<Ref> parameter) down to the underlying expression."""
    n = A.strip(n)
    for _ in range(8):
        if not (isinstance(n, dict) and n.get("k") in ("CXXConstructExpr", "CXXTemporaryObjectExpr", "CXXFunctionalCastExpr")
                and str(n.get("cls", "")) in ("Eigen::Ref", "tl::optional", "Eigen::RefBase")):
            break
        ch = n.get("ch") or []
        if not ch:
            break
        rest = [c for c in ch[1:] if not (isinstance(c, dict) and c.get("k") == "CXXDefaultArgExpr")]
        if rest:
            break
        n = A.strip(ch[0])
    return n


def cells_text(o, mask):
    cells = [(i // o.C, i % o.C) for i in range(o.R * o.C) if mask >> i & 1]
    if not cells:
        return "{}"
    if len(cells) > 6:
        rs = sorted(set(r for r, _ in cells))
        cs = sorted(set(c for _, c in cells))
        return "{rows %d..%d x cols %d..%d, %d cells}" % (rs[0], rs[-1], cs[0], cs[-1], len(cells))
    return "{" + ",".join("(%d,%d)" % rc for rc in cells) + "}"


def const_of(n):
    n = A.strip(n)
    if not isinstance(n, dict):
        return None
    if "iv" in n:
        return n["iv"]
    if n.get("k") == "IntegerLiteral":
        return n.get("v")
    if n.get("k") in ("CXXFunctionalCastExpr", "CXXStaticCastExpr", "CStyleCastExpr") and n.get("ch"):
        return const_of(n["ch"][0])
    return None


def subregion(name, targs, args, R, Cc):
    """(r0, c0, nr, nc) of a block-like access inside an R x Cc object, or None if not constant."""
    ints = [t for t in targs if isinstance(t, int)]
    a = [const_of(x) for x in args]
    vec = (Cc == 1 or R == 1)
    def ok(*xs):
        return all(x is not None for x in xs)
    if name == "block":
        if len(ints) >= 2 and len(a) == 2 and ok(*a):
            return a[0], a[1], ints[0], ints[1]
        if len(a) == 4 and ok(*a):
            return a[0], a[1], a[2], a[3]
        return None
    if name in CORNERS:
        if len(ints) >= 2:
            nr, nc = ints[0], ints[1]
        elif len(a) == 2 and ok(*a):
            nr, nc = a
        else:
            return None
        r0 = 0 if name.startswith("top") else R - nr
        c0 = 0 if "Left" in name else Cc - nc
        return r0, c0, nr, nc
    if name in ("topRows", "bottomRows", "leftCols", "rightCols"):
        k = ints[0] if ints else (a[0] if a and a[0] is not None else None)
        if k is None:
            return None
        return {"topRows": (0, 0, k, Cc), "bottomRows": (R - k, 0, k, Cc),
                "leftCols": (0, 0, R, k), "rightCols": (0, Cc - k, R, k)}[name]
    if name in ("middleRows", "middleCols"):
        if ints and a and a[0] is not None:
            k, i = ints[0], a[0]
        elif len(a) == 2 and ok(*a):
            i, k = a
        else:
            return None
        return (i, 0, k, Cc) if name == "middleRows" else (0, i, R, k)
    if name in ("row", "col"):
        if not a or a[0] is None:
            return None
        return (a[0], 0, 1, Cc) if name == "row" else (0, a[0], R, 1)
    if name in ("head", "tail", "segment"):
        if not vec:
            return None
        n_total = R * Cc
        if name == "segment":
            if ints and len(a) >= 1 and a[0] is not None:
                i, k = a[0], ints[0]
            elif len(a) == 2 and ok(*a):
                i, k = a
            else:
                return None
        else:
            k = ints[0] if ints else (a[0] if a and a[0] is not None else None)
            if k is None:
                return None
            i = 0 if name == "head" else n_total - k
        return (i, 0, k, 1) if Cc == 1 else (0, i, 1, k)
    if name in ("operator()", "coeffRef", "coeff", "operator[]"):
        if len(a) == 2 and ok(*a):
            return a[0], a[1], 1, 1
        if len(a) == 1 and a[0] is not None:
            if Cc == 1:
                return a[0], 0, 1, 1
            if R == 1:
                return 0, a[0], 1, 1
            # linear index in a column-major matrix
            return a[0] % R, a[0] // R, 1, 1
        return None
    if name in ("x", "y", "z", "w") and vec and not args:
        i = "xyzw".index(name)
        return (i, 0, 1, 1) if Cc == 1 else (0, i, 1, 1)
    return None


# ----------------------------------------------------------------------------------------------------
# drivers
# ----------------------------------------------------------------------------------------------------

def analyse_facts(F, exemptions=None):
    if exemptions is None:
        exemptions = NI_EXEMPTIONS
    """Analyse every instantiated in-repo function of one fact file bottom-up in the call graph.
    Returns {fid: FnResult}."""
    inc = C.REPO.rstrip("/") + "/include/"
    fns = [f for f in F.functions if f["kind"] != "pattern" and f.get("body") is not None and f["file"].startswith(inc)]
    by_id = {f["id"]: f for f in fns}
    graph = {f["id"]: [c for c in A.callees(f) if c in by_id and c != f["id"]] for f in fns}
    order, state = [], {}

    def visit(u):
        stack = [(u, iter(graph[u]))]
        state[u] = 1
        while stack:
            v, it = stack[-1]
            adv = False
            for w in it:
                if state.get(w, 0) == 0:
                    state[w] = 1
                    stack.append((w, iter(graph[w])))
                    adv = True
                    break
            if not adv:
                state[v] = 2
                order.append(v)
                stack.pop()
    for f in fns:
        if state.get(f["id"], 0) == 0:
            visit(f["id"])
    summaries, results = {}, {}
    for fid in order:
        f = by_id[fid]
        relevant = any(("opt" in p or "ref" in p) for p in f["params"]) or _has_matrix_locals(f)
        if not relevant:
            continue
        it = Interp(F, f, summaries, exemptions or {})
        try:
            res = it.run()
        except RecursionError:
            res = FnResult()
            res.findings.append(("R-INTERNAL", "recursion", "interpreter recursion limit", f["line"]))
        summaries[fid] = res.summary
        results[fid] = res
    return results


def _has_matrix_locals(f):
    for n in A.walk(f.get("body")):
        if n.get("k") == "VarDecl" and (n.get("dim") or n.get("init") is None):
            return True
        if n.get("k") == "CXXMemberCallExpr" and A.short(n.get("fn")) == "noalias":
            return True
    return False


def block_bounds(F):
    """R-BLOCK over every block-like access with constant indices on a fixed-size Eigen object.
    Yields (f, node, ok, text)."""
    inc = C.REPO.rstrip("/") + "/include/"
    for f in F.functions:
        if f["kind"] == "pattern" or f.get("body") is None or not f["file"].startswith(inc):
            continue
        for n in A.walk(f):
            k = n.get("k")
            if k not in ("CXXMemberCallExpr", "CXXOperatorCallExpr"):
                continue
            if not str(n.get("cls", "")).startswith("Eigen::"):
                continue
            fn, obj, args = A.call_parts(n)
            name = A.short(fn)
            if k == "CXXOperatorCallExpr":
                if n.get("op") not in ("()", "[]"):
                    continue
                name = "operator" + n["op"]
            if name not in BLOCKLIKE or obj is None:
                continue
            od = A.strip(obj)
            dim = od.get("dim") if isinstance(od, dict) else None
            if not dim or dim[0] <= 0 or dim[1] <= 0:
                continue
            sub = subregion(name, n.get("targs") or [], args, dim[0], dim[1])
            if sub is None:
                yield f, n, None, "%s on %dx%d with non-constant indices" % (name, dim[0], dim[1])
                continue
            r0, c0, nr, nc = sub
            ok = r0 >= 0 and c0 >= 0 and nr >= 0 and nc >= 0 and r0 + nr <= dim[0] and c0 + nc <= dim[1]
            yield f, n, ok, "%s -> rows %d..%d, cols %d..%d of a %dx%d object" % (name, r0, r0 + nr, c0, c0 + nc, dim[0], dim[1])


_MAT = re.compile(r"Matrix<[^,<>]+, (\d+), (\d+)")


def raw_views(F):
    """R-PTR: Map<G>(host.data() + k) constructions inside manif.
    Yields (f, node, k, host_len, view_len, view_type, const_ok)."""
    sizes = {}
    for c in F.classes:
        if c["name"] == "Eigen::Map" and c["kind"] != "pattern":
            for fld in c["fields"]:
                if fld["name"] == "data_" and fld.get("dim"):
                    sizes[str(c.get("targs"))] = (fld["dim"][0] * fld["dim"][1], "Map<const " in fld.get("cty", ""))
    for f in F.functions:
        if f["kind"] == "pattern" or f.get("body") is None:
            continue
        for n in A.walk(f):
            if n.get("k") not in ("CXXConstructExpr", "CXXTemporaryObjectExpr", "CXXFunctionalCastExpr"):
                continue
            if n.get("cls") != "Eigen::Map" or not n.get("inrepo"):
                continue
            ch = n.get("ch") or []
            if len(ch) != 1:
                continue
            ctor = F.by_id.get(n.get("fid"))
            if ctor is None or not ctor.get("params") or not ctor["params"][0].get("cty", "").rstrip().endswith("*"):
                continue   # only constructions from a raw pointer are raw views (copies of views are not)
            a = A.strip(ch[0])
            if not isinstance(a, dict):
                continue
            k, host = None, None
            if a.get("k") == "BinaryOperator" and a.get("op") == "+":
                l, r = a["ch"]
                k = const_of(r)
                host = l
                if k is None and const_of(l) is not None:
                    k, host = const_of(l), r
            elif a.get("k") == "CXXMemberCallExpr" and A.short(a.get("fn")) == "data":
                k, host = 0, a
            elif a.get("k") == "UnaryOperator" and a.get("op") == "&":
                # &coeffs()(k)
                inner = A.strip(a["ch"][0])
                if isinstance(inner, dict) and inner.get("k") in ("CXXOperatorCallExpr", "CXXMemberCallExpr"):
                    fn, obj, args = A.call_parts(inner)
                    if args and const_of(args[0]) is not None and obj is not None:
                        k = const_of(args[0])
                        host = {"k": "CXXMemberCallExpr", "fn": "data", "ch": [{"k": "MemberExpr", "name": "data", "ch": [obj]}]}
            hn = A.strip(host) if host is not None else None
            if not (isinstance(hn, dict) and hn.get("k") == "CXXMemberCallExpr" and A.short(hn.get("fn") or "data") == "data"):
                # a raw view built from something else than <buffer>.data() [+ k]: cannot be bounded
                view = sizes.get(str(n.get("clsargs")))
                yield f, n, None, None, (view[0] if view else None), str(n.get("clsargs")), (view[1] if view else None), False
                continue
            _, hobj, _ = A.call_parts(hn)
            # <buffer>.tail<4>().data() and friends: offset of the sub-view inside the buffer
            ho0 = A.strip(hobj)
            if isinstance(ho0, dict) and ho0.get("k") == "CXXMemberCallExpr" and A.short(ho0.get("fn")) in BLOCKLIKE:
                fnb, pobj, pargs = A.call_parts(ho0)
                pd = A.strip(pobj).get("dim") if isinstance(A.strip(pobj), dict) else None
                if pd and (pd[0] == 1 or pd[1] == 1):
                    sub = subregion(A.short(fnb), ho0.get("targs") or [], pargs, pd[0], pd[1])
                    if sub is not None:
                        k = (k or 0) + sub[0] + sub[1]
                        hobj = pobj
            ho = A.strip(hobj)
            hd = None
            if isinstance(ho, dict):
                hd = ho.get("dim") or ([ho["mdim"], 1] if ho.get("mdim") else None)
            view = sizes.get(str(n.get("clsargs")))
            host_const = "const" in F.ty(hn).split("*")[0] if F.ty(hn) else False
            yield f, n, k, (hd[0] * hd[1] if hd else None), (view[0] if view else None), str(n.get("clsargs")), (view[1] if view else None), host_const


# ----------------------------------------------------------------------------------------------------
# verified table exemptions for R-NI
# ----------------------------------------------------------------------------------------------------

def _strip_noalias(term):
    return re.sub(r"\(noalias ([^()]*|\([^()]*\))\)", r"\1", term)


def verify_lminus(F, f):
    """LieGroupBase::lminus writes *J_t_mb in two syntactically different ways depending on whether
    J_t_ma was requested:   J_ma = E ; J_mb = -(*J_ma)     vs     J_mb = -(E).
    The exemption holds only if the two are the same term after substituting J_ma's assignment."""
    names = [p["name"] for p in f["params"] if "opt" in p]
    if len(names) != 2:
        return False, "expected two optional outputs"
    ja, jb = names
    writes = {ja: [], jb: []}
    for n in A.walk(f):
        if n.get("k") == "CXXOperatorCallExpr" and n.get("op") == "=":
            ch = n.get("ch") or []
            if len(ch) != 3:
                continue
            lhs = sexp(ch[1])
            rhs = _strip_noalias(sexp(ch[2]))
            for j in (ja, jb):
                if lhs in ("(op* %s)" % j, "(noalias (op-> %s))" % j, "(op-> %s)" % j):
                    writes[j].append(rhs)
    if len(writes[ja]) != 1 or len(writes[jb]) != 2:
        return False, "unexpected number of assignments (%d to %s, %d to %s)" % (len(writes[ja]), ja, len(writes[jb]), jb)
    E = writes[ja][0]
    want = sorted(["(op- (op* %s))" % ja, "(op- %s)" % E])
    got = sorted(writes[jb])
    subst = sorted(w.replace("(op* %s)" % ja, E) for w in writes[jb])
    if got == want and len(set(subst)) == 1:
        return True, "both arms assign -(%s)" % E
    return False, "arms differ: %s" % " | ".join(got)


NI_EXEMPTIONS = {("manif::LieGroupBase", "lminus"): verify_lminus}
