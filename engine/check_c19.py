"""C19 — the documented generic API instantiates for every group, scalar, storage.

Decided by the C++ type checker (clang -fsyntax-only, and g++ in the thorough
tier) on the generated witness matrix; plus R-ODR (header-only linkability) and
table completeness against the public declarations found in the headers.
"""
import os
import re

from . import common as C
from . import witness as W
from .api_table import ENTRIES

QUICK_VARIANTS = ["SO2", "SE2", "SO3", "SE3", "SE_2_3", "SGal3", "R3", "B1"]
THOROUGH_VARIANTS = ["SO2", "SE2", "SO3", "SE3", "SE_2_3", "SGal3",
                     "R1", "R2", "R3", "R4", "R5", "R6", "R7", "R8", "R9", "B1", "B2", "B3"]


def public_api_names():
    """Names of public members declared in LieGroupBase / TangentBase and of the
    free functions of functions.h + the three algorithm headers (textual scan of
    declarations is enough here: it is only used to demand a table entry for
    every name, never to decide a property)."""
    inc = os.path.join(C.REPO, "include", "manif")
    names = {}
    for rel, cls in (("impl/lie_group_base.h", "LieGroupBase"), ("impl/tangent_base.h", "TangentBase")):
        src = open(os.path.join(inc, rel)).read()
        m = re.search(r"struct %s\s*\{(.*?)\n\};" % cls, src, re.S)
        if not m:
            raise C.AnalysisBroken("anchor vanished: struct %s in %s" % (cls, rel))
        body = re.sub(r"/\*.*?\*/", "", m.group(1), flags=re.S)
        body = re.sub(r"//[^\n]*", "", body)
        # drop protected sections
        pub = []
        mode = "public"
        for chunk in re.split(r"\n\s*(public|protected|private)\s*:", body):
            if chunk in ("public", "protected", "private"):
                mode = chunk
                continue
            if mode == "public":
                pub.append(chunk)
        text = "\n".join(pub)
        for mm in re.finditer(r"(?:\b|~)(operator\s*(?:\[\]|\(\)|[-+*/=<>!]+)|[A-Za-z_]\w*)\s*\(", text):
            n = re.sub(r"\s+", "", mm.group(1))
            if n in ("decltype", "noexcept", "static_cast", "declval", "forward", "coeffs", "if", "return", "sizeof", "enable_if"):
                if n != "coeffs":
                    continue
            names.setdefault(cls, set()).add(n)
    for rel in ("functions.h", "algorithms/interpolation.h", "algorithms/average.h", "algorithms/decasteljau.h"):
        src = open(os.path.join(inc, rel)).read()
        src = re.sub(r"/\*.*?\*/", "", src, flags=re.S)
        src = re.sub(r"//[^\n]*", "", src)
        for mm in re.finditer(r"^([A-Za-z_]\w*)\s*\(", src, re.M):
            names.setdefault(rel, set()).add(mm.group(1))
    return names


# public name -> entry ids that witness it (completeness of the table)
NAME_COVER = {
    "LieGroupBase": {
        "operator=": ["g.assign_kind", "g.assign_owning", "g.assign_eigen"], "coeffs": ["g.coeffs", "g.coeffs_mut"],
        "data": ["g.data", "g.data_mut"], "cast": ["g.cast_float"], "setIdentity": ["g.setIdentity"],
        "setRandom": ["g.setRandom"], "inverse": ["g.inverse"], "log": ["g.log"], "lift": ["g.lift"],
        "compose": ["g.compose"], "act": ["g.act"], "adj": ["g.adj"], "rplus": ["g.rplus"], "lplus": ["g.lplus"],
        "plus": ["g.plus"], "rminus": ["g.rminus"], "lminus": ["g.lminus"], "minus": ["g.minus"],
        "between": ["g.between"], "isApprox": ["g.isApprox"], "operator==": ["g.op_eq"], "operator+": ["g.op_plus"],
        "operator+=": ["g.op_plus_assign"], "operator-": ["g.op_minus"], "operator*": ["g.op_mul"],
        "operator*=": ["g.op_mul_assign"], "operator[]": ["g.op_index_const", "g.op_index_mut"], "size": ["g.size"],
        "Identity": ["g.Identity"], "Random": ["g.Random"],
    },
    "TangentBase": {
        "operator=": ["t.assign_kind", "t.assign_owning", "t.assign_eigen"], "coeffs": ["t.coeffs", "t.coeffs_mut"],
        "data": ["t.data", "t.data_mut"], "cast": ["t.cast_float"], "setZero": ["t.setZero"], "setRandom": ["t.setRandom"],
        "setVee": ["t.setVee"], "generator": ["t.generator"], "innerWeights": ["t.innerWeights"], "inner": ["t.inner"],
        "weightedNorm": ["t.weightedNorm"], "squaredWeightedNorm": ["t.squaredWeightedNorm"], "hat": ["t.hat"],
        "exp": ["t.exp"], "retract": ["t.retract"], "rplus": ["t.rplus_X"], "lplus": ["t.lplus_X"],
        "plus": ["t.plus_X", "t.plus_t"], "minus": ["t.minus_t"], "rjac": ["t.rjac"], "ljac": ["t.ljac"],
        "rjacinv": ["t.rjacinv"], "ljacinv": ["t.ljacinv"], "smallAdj": ["t.smallAdj"], "bracket": ["t.bracket"],
        "isApprox": ["t.isApprox_t", "t.isApprox_vec"], "operator<<": ["t.setVee"], "operator-": ["t.op_neg"],
        "operator+": ["t.op_plus_X"], "operator+=": ["t.op_plus_assign_t", "t.op_plus_assign_vec"],
        "operator-=": ["t.op_minus_assign_t", "t.op_minus_assign_vec"], "operator*=": ["t.op_mul_assign"],
        "operator/=": ["t.op_div_assign"], "operator[]": ["t.op_index_const", "t.op_index_mut"], "size": ["t.size"],
        "Zero": ["t.Zero"], "Random": ["t.Random"], "Generator": ["t.Generator"], "InnerWeights": ["t.InnerWeights"],
        "Bracket": ["t.Bracket"], "Vee": ["t.Vee"],
    },
    "functions.h": {
        "coeffs": ["f.coeffs_g", "f.coeffs_t"], "data": ["f.data_g_const", "f.data_t_const", "f.data_g_mut", "f.data_t_mut"],
        "identity": ["f.identity"], "zero": ["f.zero"], "random": ["f.random_g", "f.random_t"], "inverse": ["f.inverse"],
        "rplus": ["f.rplus"], "lplus": ["f.lplus"], "plus": ["f.plus"], "rminus": ["f.rminus"], "lminus": ["f.lminus"],
        "minus": ["f.minus"], "lift": ["f.lift"], "log": ["f.log"], "retract": ["f.retract"], "exp": ["f.exp"],
        "compose": ["f.compose"], "between": ["f.between"], "act": ["f.act"],
        "Identity": ["f.Identity"], "Zero": ["f.Zero"], "Random": ["f.Random"],
    },
    "algorithms/interpolation.h": {
        "interpolate_slerp": ["a.interpolate_slerp"], "interpolate_cubic": ["a.interpolate_cubic"],
        "interpolate_smooth": ["a.interpolate_smooth"], "interpolate": ["a.interpolate"],
        "smoothing_phi": ["a.smoothing_phi"], "binomial_coefficient": [], "ipow": [], "polynomialBernstein": [],
    },
    "algorithms/average.h": {
        "average_biinvariant": ["a.average_biinvariant"], "average": ["a.average"],
        "average_frechet_left": ["a.average_frechet_left"], "average_frechet_right": ["a.average_frechet_right"],
    },
    "algorithms/decasteljau.h": {"decasteljau": ["a.decasteljau"]},
}
NOT_API = {"LieGroupBase", "TangentBase", "MANIF_DEFAULT_CONSTRUCTOR", "derived", "_"}


def check_completeness(rep):
    ids = set(e["id"] for e in ENTRIES)
    names = public_api_names()
    n = 0
    for scope, ns in sorted(names.items()):
        cover = NAME_COVER.get(scope)
        if cover is None:
            rep.broke("no cover table for scope %s" % scope)
            continue
        for name in sorted(ns):
            if name in NOT_API:
                continue
            if name not in cover:
                rep.broke("public name %s::%s has no witness entry in tables (new API must get a witness)" % (scope, name))
                continue
            for i in cover[name]:
                if i not in ids:
                    rep.broke("cover table names unknown entry %s" % i)
            n += 1
    rep.section("completeness", public_names_covered=n,
                scopes={k: len(v) for k, v in names.items()})
    rep.floor("public_names", n, 95)


_FUNC_DEF = re.compile(r"^(?!\s)(?:(?:static|inline|constexpr|extern|const)\s+)*[\w:<>,\s\*&]+?\b([A-Za-z_]\w*)\s*\([^;{}]*\)\s*(?:const\s*)?\{", re.M)


def check_odr(rep, workdir):
    """R-ODR: two translation units that include <manif/manif.h> must link.  Decided
    structurally: clang's own linkage computation over the header-only library —
    compile two TUs to objects is *not* done; instead we ask the front end for every
    function / variable definition located in /repo/include with external linkage that is
    neither templated nor inline (such a definition in a header violates the ODR as soon
    as two TUs include it).  Uses the plugin when built; falls back to exit 2."""
    if not os.path.exists(C.PLUGIN_SO):
        rep.broke("plugin not built (run setup_cmd)")
        return
    src = os.path.join(workdir, "odr.cc")
    with open(src, "w") as fh:
        fh.write("#include <manif/manif.h>\n")
    out = os.path.join(workdir, "odr.json")
    cmd = [C.CLANGXX, "-fsyntax-only"] + C.base_flags() + [
        "-fplugin=" + C.PLUGIN_SO, "-Xclang", "-plugin", "-Xclang", "manif-sa",
        "-Xclang", "-plugin-arg-manif-sa", "-Xclang", "mode=odr",
        "-Xclang", "-plugin-arg-manif-sa", "-Xclang", "out=" + out,
        "-Xclang", "-plugin-arg-manif-sa", "-Xclang", "repo=" + C.REPO, src]
    rc, so, se = C.run(cmd)
    if rc != 0 or not os.path.exists(out):
        rep.broke("odr pass failed: " + se[:400])
        return
    import json
    facts = json.load(open(out))
    rep.section("odr", definitions_seen=facts["definitions_seen"], external_noninline=len(facts["odr_violations"]))
    rep.floor("odr_definitions_seen", facts["definitions_seen"], 300)
    for d in facts["odr_violations"]:
        rep.fail(C.Finding("C19", "R-ODR", d["name"],
                           "non-inline, non-template definition with external linkage in a header: two TUs including it fail to link",
                           d["file"], d["line"]))
    rep.ok(facts["definitions_seen"] - len(facts["odr_violations"]))


def run(args):
    rep = C.Report("C19", "proof", "compile-witness matrix decided by the C++ type checker")
    thorough = C.tier() == "thorough"
    work = C.scratch("c19")
    variants = THOROUGH_VARIANTS if thorough else QUICK_VARIANTS
    scalars = ["double", "float"]
    kinds = ["own", "map", "cmap"]
    accesses = ["derived", "base"]
    flags = C.base_flags(ndebug=False)
    try:
        check_completeness(rep)
    except C.AnalysisBroken as e:
        rep.broke(str(e))
    cells, nb, nretry = W.run_matrix(variants, scalars, kinds, accesses, work, flags, only=args.only)
    compilers = ["clang++ 14 -std=c++11 -fsyntax-only"]
    if thorough:
        gcells, gnb, gretry = W.run_matrix(variants, ["double", "float"], kinds, ["derived"],
                                           C.scratch("c19_gxx"), C.base_flags(), compiler=C.GXX, only=args.only)
        for c in gcells:
            c.access = c.access + "+g++"
        cells += gcells
        nb += gnb
        compilers.append("g++ 12 -std=c++11 -fsyntax-only")
    nfail = 0
    for c in cells:
        if c.ok:
            rep.ok()
        else:
            nfail += 1
            d = c.diag or {}
            rep.fail(C.Finding("C19", "E1-must-compile", c.site,
                               "documented API entry does not instantiate: %s" % d.get("msg", "?")[:240],
                               d.get("file"), d.get("line"),
                               {"body": c.entry["body"], "cmd": " ".join(c.cmd or [])}))
    for c in cells[:: max(1, len(cells) // 25)]:
        rep.sample({"cell": c.site, "program": c.entry["body"], "verdict": "accepted" if c.ok else "rejected"})
    if not args.only:
        rep.floor("matrix_cells", len(cells), 5000 if not thorough else 12000)
        check_odr(rep, work)
    rep.section("matrix", entries=len(ENTRIES), variants=variants, scalars=scalars, kinds=kinds,
                accesses=accesses, cells=len(cells), batches=nb, cells_rerun_individually=nretry,
                rejected=nfail, compilers=compilers)
    rep.rules = [
        "E1 must-compile: every cell (documented entry x group x scalar x storage kind x access path) is a one-statement client function that the C++ front end must accept with -std=c++11 -Wall -Wextra (result bound to the documented return type)",
        "completeness: every public name of LieGroupBase/TangentBase/functions.h/algorithms has at least one entry",
        "R-ODR: no non-inline non-template external-linkage definition in any header (header-only library links in any number of TUs)",
    ]
    rep.units = ["generated witness TUs: %d batches over /repo/include (current working tree)" % nb]
    rep.trusted = ["clang 14 front end (and g++ 12 in the thorough tier)", "system Eigen 3.4", "external/tl/optional.hpp"]
    rep.checker_cmd = "clang++ -std=c++11 -fsyntax-only -ferror-limit=0 -UNDEBUG -I/repo/include -I/repo/external/tl -isystem /usr/include/eigen3 <witness TU>"
    rep.assumptions = ["'links' is decided structurally (R-ODR) rather than by invoking the linker",
                       "the API table (engine/api_table.py) is the reading of 'documented'; completeness is enforced by name against the headers"]
    return rep.finish()
