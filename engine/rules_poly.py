"""R-POLY.jac / R-POLY.adj: exact derivative check for the *algebraic* operations (C05, C06).

For inverse, compose and act the value code is polynomial in the coefficients, and the right
Jacobian is determined, to first order, by the matrix realisation (decided by C01) and the
literal hat / vee tables (decided by C07):

   Adj(X) e_i        = vee( T(X) E_i T(X^-1) )                         (definition of the adjoint)
   J[inverse]        = -Adj(X)            since (X exp d)^-1 = X^-1 exp(-Adj(X) d)
   J[compose]_X      =  Adj(Y^-1),   J[compose]_Y = I
   J[act]_X e_i      = ( T(X) E_i [p;e] )[:Dim],   J[act]_p = T(X)[:Dim,:Dim]

Each cell of the library's analytic Jacobian (evaluated over the polynomial ring with the
output engaged) must equal the corresponding cell computed from these definitions, modulo the
unit-norm relations.  Nothing numerical: this *is* 'J is the true derivative' for these
operations, and 'X.adj() s is the vector of X hat(s) X^-1' for every group.
"""
import sympy as sp

from . import common as C
from . import facts as FX
from . import polyeval as P
from . import rules_table as RT
from . import symeval as S
from .check_c01 import GROUPS, find, relations, sym_obj

_cache = {}


def vee_of(T, M):
    """apply the group's vee table (affine in m_r_c) to a sympy matrix"""
    sub = {sp.Symbol("m_%d_%d" % (r, c)): M[r, c] for r in range(M.shape[0]) for c in range(M.shape[1])}
    out = []
    for x in T.vee.cells:
        out.append(sp.expand(S.to_sym(x).subs(sub)))
    return out


def tables(v):
    """Everything computed once per group variant: returns dict or raises AnalysisBroken."""
    key = (C.REPO, v)
    if key in _cache:
        return _cache[key]
    cls, rep_n, rot, pad = GROUPS[v]
    F = FX.get(v)
    own = "%s<double%s>" % (cls, ",3" if v == "R3" else "")
    base = cls + "Base"
    fs = {k: find(F, base, k, own) for k in ("transform", "inverse", "act", "adj")}
    fs["compose"] = find(F, base, "compose", own, lambda f: str((f.get("targs") or [""])[0]).replace(" ", "") == own.replace(" ", ""))
    for k, f in fs.items():
        if f is None:
            raise C.AnalysisBroken("anchor vanished: %s::%s" % (base, k))
    TT = RT.extract(F, v)          # hat / vee / generators (affine domain)
    E = [RT.const_matrix(e) for e in TT.E]
    if any(e is None for e in E):
        raise C.AnalysisBroken("generators of %s are not constant" % own)
    old = S.POLY
    S.POLY = True
    try:
        sym = P.PolySym(F)

        def ev(f, this, argv, what):
            try:
                return sym.call_function(f, this, argv)
            except (S.Unsupported, S.Raised) as e:
                raise C.AnalysisBroken("R-POLY cannot interpret %s of %s: %s" % (what, own, e))

        dof = TT.dof
        X, Y = sym_obj("a", rep_n), sym_obj("b", rep_n)
        TX = P.mat_sym(S.as_mat(ev(fs["transform"], X, [], "transform")))
        Jinv = S.Mat(dof, dof)
        Xi = ev(fs["inverse"], X, [S.View(Jinv, 0, 0, dof, dof)], "inverse(J)")
        TXi = P.mat_sym(S.as_mat(ev(fs["transform"], Xi, [], "transform(inverse)")))
        Yi = ev(fs["inverse"], Y, [None], "inverse")
        TY = P.mat_sym(S.as_mat(ev(fs["transform"], Y, [], "transform")))
        TYi = P.mat_sym(S.as_mat(ev(fs["transform"], Yi, [], "transform(inverse)")))
        adj = S.as_mat(ev(fs["adj"], X, [], "adj"))
        Ja, Jb = S.Mat(dof, dof), S.Mat(dof, dof)
        ev(fs["compose"], X, [Y, S.View(Ja, 0, 0, dof, dof), S.View(Jb, 0, 0, dof, dof)], "compose(J,J)")
        n = TX.shape[0]
        dim = n - len(pad)
        pv = S.Mat(dim, 1)
        pv.cells = [S.Aff.sym("p%d" % i) for i in range(dim)]
        Jm, Jv = S.Mat(dim, dof), S.Mat(dim, dim)
        ev(fs["act"], X, [pv, S.View(Jm, 0, 0, dim, dof), S.View(Jv, 0, 0, dim, dim)], "act(J,J)")
    finally:
        S.POLY = old
    mats = {"adj": adj, "Jinv": Jinv, "Ja": Ja, "Jb": Jb, "Jm": Jm, "Jv": Jv}
    symm = {}
    for k, m in mats.items():
        sm = P.mat_sym(m)
        if sm is None:
            raise C.AnalysisBroken("R-POLY: %s of %s has a cell that is unwritten or not polynomial" % (k, own))
        symm[k] = sm
    if any(m is None for m in (TX, TXi, TY, TYi)):
        raise C.AnalysisBroken("R-POLY: transform() of %s is not polynomial" % own)
    rel = relations("a", rot) + relations("b", rot)
    n = TX.shape[0]
    Em = []
    for e in E:
        m = sp.zeros(n, n)                 # pure rotation groups: T pads one homogeneous row / column
        for r in range(len(e)):
            for c in range(len(e[0])):
                m[r, c] = e[r][c]
        Em.append(m)
    # reference adjoints from the definition
    AX = sp.zeros(dof, dof)
    AYi = sp.zeros(dof, dof)
    closed = True
    for i in range(dof):
        M = TX * Em[i] * TXi
        v_ = vee_of(TT, M)
        MY = TYi * Em[i] * TY
        vy = vee_of(TT, MY)
        for k in range(dof):
            AX[k, i] = P.reduce_mod(v_[k], rel)
            AYi[k, i] = P.reduce_mod(vy[k], rel)
    hp = sp.Matrix([sp.Symbol("p%d" % i) for i in range(dim)] + pad)
    JmRef = sp.zeros(dim, dof)
    for i in range(dof):
        col = (TX * Em[i] * hp)[:dim, 0]
        for r in range(dim):
            JmRef[r, i] = P.reduce_mod(col[r], rel)
    JvRef = TX[:dim, :dim]
    out = dict(own=own, fs=fs, dof=dof, dim=dim, rel=rel, sym=symm, AX=AX, AYi=AYi, JmRef=JmRef, JvRef=JvRef)
    _cache[key] = out
    return out


def compare(rep, prop, rule, own, what, got, want, rel, f):
    n = 0
    for r in range(want.shape[0]):
        for c in range(want.shape[1]):
            n += 1
            d = P.reduce_mod(got[r, c] - want[r, c], rel)
            rep.obligation(d == 0, lambda r=r, c=c, d=d: C.Finding(
                prop, rule, "%s:%s(%d,%d)" % (own, what, r, c),
                "%s(%d,%d) differs from its definition by %s (exact, modulo |rotation| = 1)" % (what, r, c, str(d)[:200]), f["file"], f["line"]))
    return n


def check_adj(rep, prop):
    """C06: X.adj() s is the vector of X hat(s) X^-1."""
    n = g = 0
    for v in GROUPS:
        try:
            t = tables(v)
        except C.AnalysisBroken as e:
            rep.broke(str(e))
            continue
        g += 1
        n += compare(rep, prop, "R-POLY.adj", t["own"], "adj()", t["sym"]["adj"], t["AX"], t["rel"], t["fs"]["adj"])
    rep.floor("poly_adj_groups", g, 7)
    return n


def check_jacobians(rep, prop):
    """C05: inverse / compose / act Jacobians are the true derivatives."""
    n = g = 0
    for v in GROUPS:
        try:
            t = tables(v)
        except C.AnalysisBroken as e:
            rep.broke(str(e))
            continue
        g += 1
        s = t["sym"]
        dof = t["dof"]
        n += compare(rep, prop, "R-POLY.jac", t["own"], "J[inverse]", s["Jinv"], -t["AX"], t["rel"], t["fs"]["inverse"])
        n += compare(rep, prop, "R-POLY.jac", t["own"], "J[compose wrt X]", s["Ja"], t["AYi"], t["rel"], t["fs"]["compose"])
        n += compare(rep, prop, "R-POLY.jac", t["own"], "J[compose wrt Y]", s["Jb"], sp.eye(dof), t["rel"], t["fs"]["compose"])
        n += compare(rep, prop, "R-POLY.jac", t["own"], "J[act wrt X]", s["Jm"], t["JmRef"], t["rel"], t["fs"]["act"])
        n += compare(rep, prop, "R-POLY.jac", t["own"], "J[act wrt p]", s["Jv"], t["JvRef"], t["rel"], t["fs"]["act"])
    rep.floor("poly_jacobian_groups", g, 7)
    return n
