"""E2 driver: run the manif-sa plugin over generated driver TUs (the must-compile
witness batches, so that the whole documented API is instantiated) and load the
fact files.  Facts are cached under build/facts keyed by the content hash of
/repo's headers, the driver source and the plugin binary."""
import hashlib
import json
import os

from . import common as C
from . import witness as W
from .api_table import ENTRIES

_mem = {}


def _plugin_digest():
    h = hashlib.sha256()
    with open(C.PLUGIN_SO, "rb") as fh:
        h.update(fh.read())
    return h.hexdigest()[:12]


def run_plugin(src_path, out_path, mode, flags):
    cmd = [C.CLANGXX, "-fsyntax-only"] + flags + [
        "-fplugin=" + C.PLUGIN_SO, "-Xclang", "-plugin", "-Xclang", "manif-sa",
        "-Xclang", "-plugin-arg-manif-sa", "-Xclang", "mode=" + mode,
        "-Xclang", "-plugin-arg-manif-sa", "-Xclang", "out=" + out_path,
        "-Xclang", "-plugin-arg-manif-sa", "-Xclang", "repo=" + C.REPO, src_path]
    rc, so, se = C.run(cmd, timeout=1800)
    if rc != 0 or not os.path.exists(out_path):
        raise C.AnalysisBroken("plugin pass failed on %s (mode %s): %s" % (src_path, mode, se[-1500:]))
    return cmd


class Facts:
    """Loaded fact file with indexes."""

    def __init__(self, path, tag):
        self.path, self.tag = path, tag
        j = json.load(open(path))
        self.types = j["types"]
        self.functions = j["functions"]
        self.classes = j["classes"]
        self.vars = j["vars"]
        self.enums = j.get("enums", [])
        self.by_id = {}
        for f in self.functions:
            self.by_id.setdefault(f["id"], f)
        self.by_pat = {}
        for f in self.functions:
            if "pat" in f:
                self.by_pat.setdefault(f["pat"], []).append(f)

    def ty(self, node_or_idx):
        i = node_or_idx if isinstance(node_or_idx, int) else node_or_idx.get("ty")
        return self.types[i] if i is not None and i >= 0 else ""

    def funcs(self, kind=None, cls=None, short=None):
        for f in self.functions:
            if kind and f["kind"] != kind:
                continue
            if cls and f.get("cls") != cls:
                continue
            if short and f["short"] != short:
                continue
            yield f


def driver_source(variant, scalar, kind, entries=None, extra_includes="", scalar_decl=None, access="both"):
    """All-API driver: every applicable witness, operands typed as the class itself *and* as
    LieGroupBase& / TangentBase& (so that the generic layer's own members are instantiated too)."""
    out = ""
    for acc in (("derived", "base") if access == "both" else (access,)):
        es = [e for e in (entries or ENTRIES) if W.cell_applicable(e, variant, kind, acc)]
        src, _ = W.batch_source(variant, scalar, kind, acc, es, extra_includes, scalar_decl)
        if out:
            src = src[src.index("namespace w_"):]
        out += src
    return out


def get(variant, scalar="double", kind="own", mode="funcs", ndebug=False, entries=None,
        extra_src="", tag_extra=""):
    """Facts for one driver TU."""
    if not os.path.exists(C.PLUGIN_SO):
        raise C.AnalysisBroken("plugin not built: run ./verif setup")
    src = driver_source(variant, scalar, kind, entries) + extra_src
    flags = C.base_flags(ndebug=ndebug)
    key = hashlib.sha256((C.repo_digest() + _plugin_digest() + src + " ".join(flags) + mode).encode()).hexdigest()[:20]
    tag = "%s_%s_%s_%s_%s%s" % (variant, scalar, kind, mode, "ndebug" if ndebug else "debug", tag_extra)
    if key in _mem:
        return _mem[key]
    d = C.ensure_dir(os.path.join(C.WORK, "facts"))
    out = os.path.join(d, "%s.%s.json" % (tag, key))
    if not os.path.exists(out):
        for old in os.listdir(d):
            if old.startswith(tag + "."):
                os.unlink(os.path.join(d, old))
        sp = os.path.join(d, tag + ".cc")
        with open(sp, "w") as fh:
            fh.write(src)
        run_plugin(sp, out + ".tmp", mode, flags)
        os.replace(out + ".tmp", out)
    f = Facts(out, tag)
    _mem[key] = f
    return f


def get_many(specs):
    """specs: list of dicts of get() kwargs; runs the plugin passes in parallel."""
    return C.pmap(lambda kw: get(**kw), specs)


QUICK_VARIANTS = ["SO2", "SE2", "SO3", "SE3", "SE_2_3", "SGal3", "R3", "B1"]
THOROUGH_VARIANTS = QUICK_VARIANTS + ["R1", "R9", "B2", "B3"]


def variants():
    return THOROUGH_VARIANTS if C.tier() == "thorough" else QUICK_VARIANTS
