import argparse
import importlib
import os
import sys
import traceback

sys.path.insert(0, os.path.dirname(os.path.dirname(os.path.abspath(__file__))))
from engine import common as C  # noqa: E402


def main():
    ap = argparse.ArgumentParser()
    sub = ap.add_subparsers(dest="cmd", required=True)
    sp = sub.add_parser("setup")
    st = sub.add_parser("selftest")
    st.add_argument("--filter", default=None)
    st.add_argument("--parallel", type=int, default=4)
    cp = sub.add_parser("check")
    cp.add_argument("prop")
    cp.add_argument("--tier", default=None)
    cp.add_argument("--repo", default=None)
    cp.add_argument("--only", default=None)
    cp.add_argument("--replay", default=None)
    args = ap.parse_args()
    if args.cmd == "setup":
        from engine import setup
        return setup.run()
    if args.cmd == "selftest":
        from engine import selftest
        return selftest.run(args.filter, args.parallel)
    if args.tier:
        os.environ["VERIF_TIER"] = args.tier
    if args.repo:
        C.set_repo(args.repo)
    if args.replay:
        import json
        args.only = json.load(open(args.replay))["site"]
    prop = args.prop.upper()
    try:
        mod = importlib.import_module("engine.check_" + prop.lower())
    except ImportError as e:
        print("no check for %s: %s" % (prop, e))
        return 2
    try:
        rc = mod.run(args)
        if rc == 0 and C.tier() == "thorough" and C.REPO == "/repo" and not args.only and not os.environ.get("VERIF_NO_SELFTEST"):
            rc = thorough_selftest(prop)
        return rc
    except C.AnalysisBroken as e:
        print("ANALYSIS-BROKEN property=%s: %s" % (prop, e))
        return 2
    except Exception:
        traceback.print_exc()
        print("ANALYSIS-BROKEN property=%s: internal error" % prop)
        return 2


def thorough_selftest(prop):
    """Thorough tier: the checker is tested both ways on its own mutants (scratch copies under /var/tmp);
    the tally goes into the evidence file; a mutant behaving unexpectedly means the analysis is broken."""
    import json
    from engine import selftest
    summ = selftest.run_for_prop(prop)
    p = os.path.join(C.EVIDENCE, prop + ".json")
    try:
        ev = json.load(open(p))
        ev["coverage"]["selftest_mutants"] = summ
        json.dump(ev, open(p, "w"), indent=1)
    except (OSError, ValueError):
        pass
    print("[%s] selftest: %s/%s breaking mutants reported, %s/%s neutral mutants silent" % (
        prop, summ.get("breaking_detected", 0), summ.get("breaking_total", 0), summ.get("neutral_silent", 0), summ.get("neutral_total", 0)))
    if summ.get("unexpected"):
        for u in summ["unexpected"]:
            print("ANALYSIS-BROKEN property=%s: self-test mutant %s: %s" % (prop, u["id"], "; ".join(u["why"])))
        return 2
    return 0


if __name__ == "__main__":
    sys.exit(main())
