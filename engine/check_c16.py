"""C16 - averages: emptiness check, bounded iteration, singleton, construction discipline (DESIGN.md 3/C16).
Stationarity / order independence / equivariance / convergence are numerical and NOT decided."""
from . import astq as A
from . import check_c04 as C04
from . import common as C
from . import facts as FX
from .sexp import sexp

ROUTINES = ("average_biinvariant", "average", "average_frechet_left", "average_frechet_right")


def refs(n, decls):
    return any(x.get("k") == "DeclRefExpr" and x.get("decl") in decls for x in A.walk(n))


def writes_to(body, decls):
    """Statements in `body` that may modify any variable of `decls` (assignment, ++/--, non-const member call)."""
    out = []
    for x in A.walk(body):
        k = x.get("k")
        if k in ("BinaryOperator", "CompoundAssignOperator") and x.get("op", "").endswith("=") and x.get("op") not in ("==", "!=", "<=", ">="):
            l = A.strip(x["ch"][0])
            if isinstance(l, dict) and l.get("k") == "DeclRefExpr" and l.get("decl") in decls:
                out.append(x)
        if k == "UnaryOperator" and x.get("op") in ("++", "--"):
            l = A.strip(x["ch"][0])
            if isinstance(l, dict) and l.get("k") == "DeclRefExpr" and l.get("decl") in decls:
                out.append(x)
        if k in ("CXXOperatorCallExpr", "CXXMemberCallExpr"):
            fn, obj, args = A.call_parts(x)
            o = A.strip(obj)
            if isinstance(o, dict) and o.get("k") == "DeclRefExpr" and o.get("decl") in decls and not x.get("cmeth"):
                if k == "CXXOperatorCallExpr" and x.get("op") in ("*", "->", "!=", "==", "[]", "()"):
                    continue
                out.append(x)
    return out


def counted_loop(loop, allow_iter=True):
    """(ok, description).  Accepts `for (T i = a; i < / <= / != bound; ++i)` where neither i nor any variable of
    `bound` is modified in the body."""
    if loop.get("k") == "CXXForRangeStmt":
        rng = loop.get("range")
        rdecls = {x["decl"] for x in A.walk(rng) if x.get("k") == "DeclRefExpr" and x.get("dk") in ("Var", "ParmVar")}
        w = writes_to(loop.get("body"), rdecls)
        return (not w), "range-for over %s" % sexp(rng)[:60]
    if loop.get("k") != "ForStmt":
        return False, "%s loop" % loop.get("k")
    cond = A.strip(loop.get("cond"))
    inc = A.strip(loop.get("inc"))
    if not isinstance(cond, dict) or not isinstance(inc, dict):
        return False, "for loop without condition or increment"
    op = cond.get("op")
    if cond.get("k") not in ("BinaryOperator", "CXXOperatorCallExpr") or op not in ("<", "<=", "!="):
        return False, "loop condition is not a comparison: %s" % sexp(cond)[:80]
    ch = cond.get("ch") or []
    lhs, rhs = (ch[0], ch[1]) if cond.get("k") == "BinaryOperator" else (ch[1], ch[2])
    l = A.strip(lhs)
    if not (isinstance(l, dict) and l.get("k") == "DeclRefExpr"):
        return False, "loop counter is not a variable"
    ctr = l["decl"]
    ok_inc = (inc.get("k") == "UnaryOperator" and inc.get("op") == "++") or (inc.get("k") == "CXXOperatorCallExpr" and inc.get("op") == "++")
    it = A.strip((inc.get("ch") or [None])[-1 if inc.get("k") == "CXXOperatorCallExpr" else 0])
    if not ok_inc or not (isinstance(it, dict) and it.get("decl") == ctr):
        return False, "increment is not ++counter"
    bdecls = {x["decl"] for x in A.walk(rhs) if x.get("k") == "DeclRefExpr" and x.get("dk") in ("Var", "ParmVar")}
    w = writes_to(loop.get("body"), {ctr} | bdecls)
    if w:
        return False, "counter or bound is modified inside the loop body at line %s" % w[0].get("ln")
    return True, "for (%s %s %s; ++)" % (l.get("name"), op, sexp(rhs)[:50])


def loops_of(n, top=True):
    for x in A.walk(n):
        if x.get("k") in ("ForStmt", "WhileStmt", "DoStmt", "CXXForRangeStmt"):
            yield x


def run(args):
    rep = C.Report("C16", "other", "must-pass-through emptiness check, counted-loop shape, singleton exit, construction discipline")
    n = 0
    for v in FX.variants():
        F = FX.get(v)
        for name in ROUTINES:
            f = next((g for g in F.functions if g["kind"] == "inst" and g["short"] == name and not g.get("cls") and g["file"].endswith("algorithms/average.h")), None)
            if f is None:
                rep.broke("anchor vanished: %s instantiation in driver %s" % (name, v))
                continue
            n += 1
            site = "%s{%s}" % (name, v)
            stmts = (f.get("body") or {}).get("ch") or []
            pts = {p["decl"] for p in f["params"] if p["name"] == "points"}
            maxit = {p["decl"] for p in f["params"] if p["name"] == "max_iterations"}
            # (a) emptiness check first
            idx = None
            for i, s in enumerate(stmts):
                if s.get("k") == "IfStmt" and any(x.get("noret") for x in A.walk(s.get("then"))) and refs(s.get("cond"), pts) and "empty" in sexp(s.get("cond")):
                    idx = i
                    break
                if refs(s, pts):
                    break
            rep.obligation(idx is not None, lambda: C.Finding("C16", "R-MPT.empty", site, "no emptiness check raising an exception precedes the first use of the container", f["file"], f["line"]))
            # (c) singleton exit before any loop
            first_loop = next((i for i, s in enumerate(stmts) if any(True for _ in loops_of(s))), len(stmts))
            single = False
            for s in stmts[(idx or 0) + 1:first_loop]:
                if s.get("k") == "IfStmt" and "size" in sexp(s.get("cond")) and refs(s.get("cond"), pts):
                    t = sexp(s.get("then"))
                    if "(return" in t and "begin" in t:
                        single = True
            rep.obligation(single, lambda: C.Finding("C16", "R-MPT.singleton", site, "a single-element container is not returned before iterating", f["file"], f["line"]))
            # (b) bounded iteration
            loops = list(loops_of(f.get("body")))
            outer = [l for l in loops if l.get("k") == "ForStmt" and refs(l.get("cond"), maxit)]
            rep.obligation(len(outer) == 1, lambda: C.Finding("C16", "R-LOOP", site, "expected exactly one outer loop bounded by max_iterations, found %d" % len(outer), f["file"], f["line"]))
            for l in loops:
                ok, why = counted_loop(l)
                rep.obligation(ok, lambda l=l, why=why: C.Finding("C16", "R-LOOP", "%s@loop:%s" % (site, l.get("ln")), "loop is not a counted loop: " + why, f["file"], l.get("ln")))
            if outer:
                inner = [l for l in loops if l is not outer[0]]
                nested_ok = all(any(x is l for x in A.walk(outer[0].get("body"))) for l in inner)
                rep.obligation(nested_ok, lambda: C.Finding("C16", "R-LOOP", site, "a loop exists outside the max_iterations-bounded loop", f["file"], f["line"]))
            # (b') freshness: nothing computed from the iterate before the loop is used inside it without being recomputed
            if outer:
                ret = [x for x in A.walk(f.get("body")) if x.get("k") == "ReturnStmt"]
                it_decls = set()
                for r_ in ret:
                    e = A.strip(r_.get("e"))
                    while isinstance(e, dict) and e.get("k") in ("CXXConstructExpr", "ImplicitCastExpr", "MaterializeTemporaryExpr") and e.get("ch"):
                        e = A.strip(e["ch"][0])
                    if isinstance(e, dict) and e.get("k") == "DeclRefExpr" and e.get("dk") == "Var":
                        it_decls.add(e["decl"])
                it_decls = {d for d in it_decls if writes_to(outer[0].get("body"), {d})}
                stale = {}
                for s_ in stmts:
                    if s_ is outer[0] or any(x is outer[0] for x in A.walk(s_)):
                        break
                    if s_.get("k") == "DeclStmt":
                        for d in s_.get("decls") or []:
                            if d.get("k") == "VarDecl" and d.get("init") is not None and d["decl"] not in it_decls and refs(d["init"], it_decls | set(stale)):
                                stale[d["decl"]] = d
                    for x in A.walk(s_):
                        if x.get("k") in ("BinaryOperator", "CXXOperatorCallExpr") and x.get("op") == "=" and x.get("ch"):
                            ch = x["ch"]
                            lhs = A.strip(ch[0] if x.get("k") == "BinaryOperator" else ch[1])
                            rhs = ch[-1]
                            if isinstance(lhs, dict) and lhs.get("k") == "DeclRefExpr" and lhs.get("decl") not in it_decls and refs(rhs, it_decls | set(stale)):
                                stale[lhs["decl"]] = lhs
                n_fresh = 0
                for d_, node in stale.items():
                    if writes_to(outer[0].get("body"), {d_}):
                        continue         # updated inside the loop (previous-iterate bookkeeping and the like): not a hoisted value
                    for x in A.walk(outer[0].get("body")):
                        if x.get("k") == "DeclRefExpr" and x.get("decl") == d_:
                            n_fresh += 1
                            rep.fail(C.Finding("C16", "R-ITER.fresh", "%s:%s" % (site, node.get("name")),
                                               "`%s` is computed from the iterate before the loop and read at line %s inside it although the iterate changes in every pass: the update is not a function of the current iterate (stale linearisation point)" % (node.get("name"), x.get("ln")),
                                               f["file"], x.get("ln")))
                            break
                if not n_fresh:
                    rep.ok()
            # (b'') the stopping test is a function of the update tangent only: resolving the scalar / matrix locals it
            # reads through their definitions inside the loop, and stopping at tangent-typed values (differences of group
            # elements, which are invariant under translation of all points), it never reaches the iterate itself
            if outer:
                body = outer[0].get("body")
                defs = {}
                for x in A.walk(body):
                    if x.get("k") == "VarDecl" and x.get("init") is not None:
                        defs.setdefault(x["decl"], []).append(x["init"])
                    if x.get("k") in ("BinaryOperator", "CXXOperatorCallExpr") and x.get("op") in ("=", "+=", "-=", "*=") and x.get("ch"):
                        ch = x["ch"]
                        lhs = A.strip(ch[0] if x.get("k") == "BinaryOperator" else ch[1])
                        if isinstance(lhs, dict) and lhs.get("k") == "DeclRefExpr":
                            defs.setdefault(lhs["decl"], []).append(ch[-1])
                tys = {x["decl"]: F.ty(x) for x in A.walk(f.get("body")) if x.get("k") == "VarDecl"}
                n_stop = 0
                for x in A.walk(body):
                    if x.get("k") == "IfStmt" and any(y.get("k") in ("BreakStmt", "ReturnStmt") for y in A.walk(x.get("then"))):
                        n_stop += 1
                        seen, todo, hit = set(), [x.get("cond")], None
                        while todo and hit is None:
                            e = todo.pop()
                            for y in A.walk(e):
                                if y.get("k") == "DeclRefExpr" and y.get("dk") == "Var":
                                    d_ = y.get("decl")
                                    if d_ in it_decls:
                                        hit = y
                                        break
                                    if d_ in seen or "Tangent" in tys.get(d_, ""):
                                        continue
                                    seen.add(d_)
                                    todo.extend(defs.get(d_, []))
                        rep.obligation(hit is None, lambda x=x, hit=hit: C.Finding(
                            "C16", "R-ITER.stop", "%s@stop" % site,
                            "the stopping test at line %s reads the iterate `%s` itself (line %s), not only the update tangent: the number of sweeps then depends on where the points lie, so the result does not commute with translating all points" % (x.get("ln"), hit.get("name") or "?", hit.get("ln")),
                            f["file"], x.get("ln")))
                rep.obligation(n_stop >= 1, lambda: C.Finding("C16", "R-ITER.stop", site, "no stopping test found inside the max_iterations loop", f["file"], f["line"]))
            # (d) elements are produced only through group operations
            for x in A.walk(f.get("body")):
                if x.get("k") in ("CXXConstructExpr", "CXXTemporaryObjectExpr") and x.get("inrepo") and str(x.get("cls", "")).startswith("manif::"):
                    callee = F.by_id.get(x.get("fid"))
                    if callee and callee.get("params"):
                        cty = callee["params"][0].get("cty", "")
                        raw = "Eigen::MatrixBase" in cty or cty in ("double", "float", "const double", "const float")
                        rep.obligation(not raw, lambda x=x: C.Finding("C16", "R-CONSTRUCT", site, "average builds an element directly from raw coefficients (bypasses the group operations that keep elements valid)", f["file"], x.get("ln")))
            rep.sample({"routine": site, "loops": [counted_loop(l)[1] for l in loops]}, limit=8)
    rep.floor("routines", n, 32)
    rep.rules = [
        "R-MPT.empty: a check raising on an empty container precedes every use of the container",
        "R-MPT.singleton: a one-element container is returned (its element) before any iteration",
        "R-LOOP: exactly one outer loop `for (i = 0; i < max_iterations; ++i)`; every loop is a counted loop whose counter and bound are not modified in its body; inner loops advance an iterator to end(); no while/do loops => at most max_iterations*|points| group operations",
        "R-ITER.fresh: no value derived from the iterate before the max_iterations loop and never updated inside it is read inside it (a hoisted linearisation point goes stale when the iterate changes)",
        "R-ITER.stop: every test that leaves the max_iterations loop depends on the iterate only through tangent-typed values (group differences): resolving the non-tangent locals it reads through their definitions in the loop never reaches the iterate variable itself (a coefficient-dependent threshold is not translation invariant)",
        "R-CONSTRUCT: elements are produced only through group operations (+=, lplus, rplus, +), never from raw coefficients",
    ]
    rep.observations.append("average() ignores its eps parameter and uses Constants<Scalar>::eps (clang-tidy misc-unused-parameters cross-reference); not a clause of the property")
    rep.units = ["%s_double_own_funcs_debug" % v for v in FX.variants()]
    rep.trusted = ["clang AST"]
    rep.assumptions = ["NOT decided: stationarity, order independence, equivariance, convergence within the budget (numerical)"]
    rep.checker_cmd = "manif-sa plugin (mode=funcs) + engine/check_c16.py"
    return rep.finish()
