"""C07 - Lie-algebra structure: hat, vee, generators, bracket, inner product (DESIGN.md 3/C07).
Exact table algebra over Q on the tables built by the library's own code."""
from . import astq as A
from . import common as C
from . import facts as FX
from . import rules_table as RT
from . import symeval as S
from .sexp import sexp


def forwarding_clauses(rep, F, T, v):
    """bracket = smallAdj*b, inner = a^T W b, weightedNorm = sqrt(squaredWeightedNorm), Bracket/Vee/generator
    static helpers forward to the members: evaluated in the affine domain with one symbolic operand and one basis
    constant (both are linear in each argument, so basis evaluation is exhaustive)."""
    sym = T.sym
    key = T.name
    dof = T.dof

    def F_(rule, site, msg, f):
        return C.Finding("C07", rule, "%s:%s" % (key, site), msg, f["file"], f["line"])

    def basis(j):
        m = S.Mat(dof, 1, S.Aff(0))
        m.set(j, 0, S.Aff(1))
        return S.Obj(S.View(m, 0, 0, dof, 1))

    f_br = None
    f_in = None
    f_wn = None
    f_sq = None
    for f in F.functions:
        if f["kind"] != "inst" or f.get("cls") != "manif::TangentBase":
            continue
        a0 = str((f.get("clsargs") or [""])[0]).replace(" ", "")
        if a0 != key:
            continue
        if f["short"] == "bracket" and str(f.get("targs", [""])[0]).replace(" ", "") == key:
            f_br = f
        if f["short"] == "inner" and str(f.get("targs", [""])[0]).replace(" ", "") == key:
            f_in = f
        if f["short"] == "weightedNorm":
            f_wn = f
        if f["short"] == "squaredWeightedNorm":
            f_sq = f
    if f_br is None or f_in is None or f_wn is None or f_sq is None:
        rep.broke("anchor vanished: TangentBase::bracket/inner/weightedNorm/squaredWeightedNorm instantiation for %s" % key)
        return
    Wc = RT.const_matrix(T.W) if T.W is not None else None
    for j in range(dof):
        try:
            r = sym.call_function(f_br, S.sym_object("c", dof), [basis(j)])
            got = r.coeffs.mat() if isinstance(r, S.Obj) and r.coeffs is not None else None
        except (S.Unsupported, S.Raised) as e:
            rep.broke("R-TABLE cannot interpret bracket of %s: %s" % (key, e))
            return
        for k in range(dof):
            want = T.smallAdj.get(k, j)
            g = got.get(k, 0) if got is not None else None
            rep.obligation(g == want, lambda j=j, k=k, g=g, want=want: F_(
                "R-TABLE.bracket", "bracket(e_%d)[%d]" % (j, k),
                "t.bracket(e_%d)[%d] = %r but smallAdj()(%d,%d) = %r" % (j, k, g, k, j, want), f_br))
        try:
            r = S.scalarize(sym.call_function(f_in, S.sym_object("c", dof), [basis(j)]))
        except (S.Unsupported, S.Raised) as e:
            rep.broke("R-TABLE cannot interpret inner of %s: %s" % (key, e))
            return
        if Wc is not None:
            want = S.Aff(0)
            for i in range(dof):
                if Wc[i][j] != 0:
                    want = want + S.Aff.sym("c%d" % i).scale(Wc[i][j])
            rep.obligation(r == want, lambda j=j, r=r, want=want: F_(
                "R-TABLE.inner", "inner(e_%d)" % j, "t.inner(e_%d) = %r but (t^T W)[%d] = %r" % (j, r, j, want), f_in))
    # squaredWeightedNorm is the quadratic form of W: fixed by its values on e_i and e_i + e_j
    if Wc is not None:
        def q(vec):
            m = S.Mat(dof, 1)
            m.cells = [S.Aff(x) for x in vec]
            r = S.scalarize(sym.call_function(f_sq, S.Obj(S.View(m, 0, 0, dof, 1)), []))
            return r.c if isinstance(r, S.Aff) and r.is_const() else None
        try:
            for i in range(dof):
                for j in range(i, dof):
                    vec = [0] * dof
                    vec[i] += 1
                    vec[j] += 1
                    want = sum(vec[a] * Wc[a][b] * vec[b] for a in range(dof) for b in range(dof))
                    got = q(vec)
                    rep.obligation(got == want, lambda i=i, j=j, got=got, want=want: F_(
                        "R-TABLE.inner", "squaredWeightedNorm(e_%d+e_%d)" % (i, j),
                        "squaredWeightedNorm = %s, quadratic form of InnerWeights = %s" % (got, want), f_sq))
        except (S.Unsupported, S.Raised) as e:
            rep.broke("R-TABLE cannot interpret squaredWeightedNorm of %s: %s" % (key, e))
    # weightedNorm = sqrt(squaredWeightedNorm())
    term = sexp(f_wn.get("body"))
    ok = "(return (sqrt (squaredWeightedNorm this)))" in term.replace("CXXDefaultArgExpr", "")
    rep.obligation(ok, lambda: F_("R-FWD.weightedNorm", "weightedNorm", "weightedNorm() is not sqrt(squaredWeightedNorm()): %s" % term[:200], f_wn))


def run(args):
    rep = C.Report("C07", "proof", "exact table algebra over Q (R-TABLE) on generators, hat, vee, smallAdj, inner weights")
    n = 0
    cells = 0
    for v in FX.variants():
        if args.only and args.only != v:
            continue
        try:
            F = FX.get(v)
            T = RT.extract(F, v)
        except C.AnalysisBroken as e:
            rep.broke(str(e))
            continue
        E = RT.check_group(rep, "C07", T, v)
        if E is not None:
            forwarding_clauses(rep, F, T, v)
        n += 1
        cells += T.H.R * T.H.C
    if not args.only:
        rep.floor("groups_with_tables", n, 8)
        rep.floor("hat_cells", cells, 150)
    rep.rules = [
        "Generator(i), 0 <= i < DoF, evaluates to a constant matrix; every other probe of the index domain (all breakpoints of the comparisons/case labels on i, +-1, 2^31, 2^32-1) raises manif::invalid_argument",
        "hat()(r,c) == sum_i c_i * Generator(i)(r,c) for every cell (pins generators to hat's documented layout; linearity of hat)",
        "generators linearly independent (exact rank)",
        "Vee(hat(c)) == c",
        "[E_i, E_j] lies in the algebra; smallAdj()(k,j) == sum_i c_i f_ij^k (structure constants from hat/vee); antisymmetry and Jacobi on the rational structure constants",
        "t.bracket(e_j) == smallAdj()[:, j];  t.inner(e_j) == (t^T W)_j;  squaredWeightedNorm is W's quadratic form;  weightedNorm = sqrt(squaredWeightedNorm())",
        "InnerWeights()(r,c) == tr(E_r E_c^T) (Frobenius Gram), symmetric positive definite (exact elimination)",
        "any construct the table interpreter does not understand makes the instance inconclusive => exit 2, never a pass",
    ]
    rep.units = ["%s_double_own_funcs_debug" % v for v in FX.variants()]
    rep.trusted = ["clang 14 AST/instantiation/constant folding", "transfer functions of the ~30 Eigen idioms in engine/symeval.py (comma initialiser, blocks, Zero/Identity, products, transpose, trace)"]
    rep.assumptions = ["identities are over Q: floating-point evaluation of the same tables is exact for these 0/+-1/2 entries"]
    rep.checker_cmd = "manif-sa plugin (mode=funcs) + engine/symeval.py (affine-form abstract interpreter) + engine/rules_table.py"
    return rep.finish()
