"""R-SERIES.deriv: every analytic Jacobian is the derivative of the operation it belongs to (DESIGN.md 10.8).

For an operation f and one of its operands, the library's code is interpreted twice in the jet domain
(engine/jetnum.py): at the operands X = exp(e x), Y = exp(e y), t = e y, p   and at the same operands with the chosen
one perturbed on the right by  exp(eta d)  (tangent / vector operands: + eta d), where eta is a nilpotent symbol
(eta^2 = 0: first-order perturbation, exact).  The difference  f(.. (+) eta d ..) (-) f(..)  - right-minus
log(f0^-1 f1) for group-valued results, subtraction otherwise - is exactly linear in eta; its eta-coefficient is
J_true d.  It must equal  J_code d  (the Jacobian the same call wrote) through order N in (x, y), cell by cell, for
symbolic directions d.  exp / log / compose / inverse used to form the perturbation and the difference are the
library's own (their agreement with the matrix group and the defining series is C01 / C02 / C03).
"""
import sympy as sp

from . import common as C
from . import facts as FX
from . import jetnum as J
from . import polyeval as P
from . import rules_series as RS
from . import symeval as S
from .check_c01 import find

ETA = sp.Symbol("eta")

OPS = ("inverse", "compose", "rplus", "lplus", "rminus", "lminus", "between", "act", "exp", "log", "t.rplus", "t.lplus", "t.plus")


def analyse(rep, prop, v, ops, order=2, margin=3):
    tcls, gcls, dof, rep_n = RS.TAN[v]
    F = FX.get(v)
    own_t, own_g = tcls + "<double>", gcls + "<double>"
    LG, TB = "manif::LieGroupBase", "manif::TangentBase"
    old = S.POLY, S.JET, J.NILPOTENT, J.ORDER
    S.POLY, S.JET, J.NILPOTENT, J.ORDER = "expr", J, ETA, order + margin
    n_obl = 0
    try:
        sym = RS.SeriesSym(F)
        sym.switches = set()
        xs = [sp.Symbol("x%d" % i) for i in range(dof)]
        # second operand: one free magnitude s along a fixed generic rational direction (keeps the radicands of
        # log(Y^-1 X) tractable; the identities checked are polynomial of degree <= order in (x, s))
        s_ = sp.Symbol("s")
        QDIR = [sp.Rational(a, b) for a, b in ((1, 3), (-2, 5), (3, 7), (5, 11), (-4, 9), (2, 13), (-7, 15), (6, 17), (1, 19), (-3, 23))]
        ys = [s_ * QDIR[i] for i in range(dof)]
        ds = [sp.Symbol("d%d" % i) for i in range(dof)]

        def tangent(cells):
            m = S.Mat(dof, 1)
            m.cells = list(cells)
            return S.Obj(S.View(m, 0, 0, dof, 1), own_t)

        def fn(cls, short, owner, pred=None):
            f = find(F, cls, short, owner, pred)
            if f is None:
                raise C.AnalysisBroken("anchor vanished: %s::%s of %s" % (cls, short, owner))
            return f

        def other_is(t):
            return lambda f: str((f.get("targs") or [""])[0]).replace(" ", "") == t.replace(" ", "")

        f_exp = fn(tcls + "Base", "exp", own_t)
        f_log = fn(gcls + "Base", "log", own_g)
        f_inv = fn(gcls + "Base", "inverse", own_g)
        f_cmp = fn(gcls + "Base", "compose", own_g, other_is(own_g))
        f_act = fn(gcls + "Base", "act", own_g)
        f_rplus = fn(LG, "rplus", own_g, other_is(own_t))
        f_lplus = fn(LG, "lplus", own_g, other_is(own_t))
        f_rminus = fn(LG, "rminus", own_g, other_is(own_g))
        f_lminus = fn(LG, "lminus", own_g, other_is(own_g))
        f_between = fn(LG, "between", own_g, other_is(own_g))

        def call(f, this, args, what):
            try:
                return sym.call_function(f, this, args)
            except (S.Unsupported, S.Raised) as ex:
                raise C.AnalysisBroken("R-SERIES.deriv cannot interpret %s of %s: %s" % (what, own_g, ex))

        def Jout(r=dof, c=dof):
            m = S.Mat(r, c)
            return m, S.View(m, 0, 0, r, c)

        gexp = lambda t: call(f_exp, t, [None], "exp")
        glog = lambda X: call(f_log, X, [None], "log")
        ginv = lambda X: call(f_inv, X, [None], "inverse")
        gcmp = lambda X, Y: call(f_cmp, X, [Y, None, None], "compose")

        tx = tangent(J.JetNum({1: x}) for x in xs)
        ty = tangent(J.JetNum({1: y}) for y in ys)
        td = tangent(J.JetNum({0: ETA * d}) for d in ds)
        X, Y = gexp(tx), gexp(ty)
        D = gexp(td)
        Xd, Yd = gcmp(X, D), gcmp(Y, D)
        tyd = tangent(J.add(a, b) for a, b in zip(ty.coeffs.mat().cells, td.coeffs.mat().cells))
        txd = tangent(J.add(a, b) for a, b in zip(tx.coeffs.mat().cells, td.coeffs.mat().cells))
        # a point: plain symbols, perturbed additively
        n_t = sym  # noqa
        Tm = S.as_mat(call(fn(gcls + "Base", "transform", own_g), X, [], "transform"))
        dim = None

        def gdiff(r1, r0):
            """right-minus of two group elements: log(r0^-1 r1)"""
            return glog(gcmp(ginv(r0), r1)).coeffs.mat().cells

        def vdiff(r1, r0):
            a, b = S.as_mat(r1 if not isinstance(r1, S.Obj) else r1.coeffs), S.as_mat(r0 if not isinstance(r0, S.Obj) else r0.coeffs)
            return [J.add(p_, q_, -1) for p_, q_ in zip(a.cells, b.cells)]

        def check(opname, operand, Jm, diff_cells, ddir, f):
            """Jm: Mat written by the code; diff_cells: jets linear in eta; ddir: direction symbols of the perturbed operand"""
            nonlocal n_obl
            rows = RS.mat_jets(Jm)
            if rows is None:
                raise C.AnalysisBroken("R-SERIES.deriv: the Jacobian of %s w.r.t. %s written by %s has an unwritten / non-symbolic cell" % (opname, operand, own_g))
            for r, cell in enumerate(diff_cells):
                n_obl += 1
                cell = J.lift(cell)
                want = J.JetNum({})
                for c, dsym in enumerate(ddir):
                    want = J.add(want, J.mul(rows[r][c], J.JetNum({0: dsym})))
                bad = None
                try:
                    g = J.truncate(cell, order)
                    w = J.truncate(want, order)
                except ValueError as ex:
                    raise C.AnalysisBroken("R-SERIES.deriv: %s/%s of %s: %s" % (opname, operand, v, ex))
                for kk in sorted(set(g) | set(w)):
                    gk = sp.expand(g.get(kk, sp.Integer(0)))
                    lin = sp.expand(gk.coeff(ETA, 1)) if gk != 0 else sp.Integer(0)
                    zero = gk.coeff(ETA, 0) if gk != 0 else sp.Integer(0)
                    dd = J._simp(lin - w.get(kk, sp.Integer(0)))
                    if dd != 0:
                        dd = sp.simplify(dd.subs({rr: sp.sqrt(rad) for rad, rr in J._roots.items()}))
                    if J._simp(zero) != 0:
                        bad = "order %d: the unperturbed difference is not zero (%s)" % (kk, str(zero)[:60])
                        break
                    if dd != 0:
                        bad = "order %d: derivative of the operation %s, Jacobian written by the code %s" % (kk, str(lin)[:80], str(w.get(kk, 0))[:80])
                        break
                rep.obligation(bad is None, lambda r=r, bad=bad: C.Finding(
                    prop, "R-SERIES.deriv", "%s:%s/d%s[%d]" % (own_g, opname, operand, r),
                    "the Jacobian of %s with respect to %s is not the derivative of the operation (row %d, through order %d at the identity, symbolic direction): %s" % (opname, operand, r, order, bad),
                    f["file"], f["line"]))

        for op in ops:
            if op == "inverse":
                Jm, Jv = Jout()
                r0 = call(f_inv, X, [Jv], "inverse(J)")
                check(op, "X", Jm, gdiff(call(f_inv, Xd, [None], "inverse"), r0), ds, f_inv)
            elif op == "compose":
                Ja, Jav = Jout()
                Jb, Jbv = Jout()
                r0 = call(f_cmp, X, [Y, Jav, Jbv], "compose(J,J)")
                check(op, "X", Ja, gdiff(gcmp(Xd, Y), r0), ds, f_cmp)
                check(op, "Y", Jb, gdiff(gcmp(X, Yd), r0), ds, f_cmp)
            elif op in ("rplus", "lplus"):
                f = f_rplus if op == "rplus" else f_lplus
                Ja, Jav = Jout()
                Jb, Jbv = Jout()
                r0 = call(f, X, [ty, Jav, Jbv], op + "(J,J)")
                check(op, "X", Ja, gdiff(call(f, Xd, [ty, None, None], op), r0), ds, f)
                check(op, "t", Jb, gdiff(call(f, X, [tyd, None, None], op), r0), ds, f)
            elif op in ("rminus", "lminus"):
                f = f_rminus if op == "rminus" else f_lminus
                Ja, Jav = Jout()
                Jb, Jbv = Jout()
                # any pair (X, Y) near the identity is (Y exp(e x), Y) resp. (exp(e x) Y, Y): parametrise it so that the
                # logarithm inside the operation is taken of exp(e x) (one radicand |x_ang|^2 instead of a quadratic form in (x, s))
                X_, Y_ = (gcmp(Y, X), Y) if op == "rminus" else (gcmp(X, Y), Y)
                Xd_ = gcmp(X_, D)
                r0 = call(f, X_, [Y_, Jav, Jbv], op + "(J,J)")
                dX = vdiff(call(f, Xd_, [Y_, None, None], op), r0)
                dY = vdiff(call(f, X_, [Yd, None, None], op), r0)
                X, X_keep = X_, X
                check(op, "X", Ja, dX, ds, f)
                check(op, "Y", Jb, dY, ds, f)
                Ja1, Jav1 = Jout()
                call(f, X, [Y, Jav1, None], op + "(J,_)")
                check(op + "[only J_X]", "X", Ja1, dX, ds, f)
                Jb1, Jbv1 = Jout()
                call(f, X, [Y, None, Jbv1], op + "(_,J)")
                check(op + "[only J_Y]", "Y", Jb1, dY, ds, f)
                X = X_keep
            elif op == "between":
                Ja, Jav = Jout()
                Jb, Jbv = Jout()
                r0 = call(f_between, X, [Y, Jav, Jbv], "between(J,J)")
                check(op, "X", Ja, gdiff(call(f_between, Xd, [Y, None, None], op), r0), ds, f_between)
                check(op, "Y", Jb, gdiff(call(f_between, X, [Yd, None, None], op), r0), ds, f_between)
            elif op == "act":
                pdim = [p_ for p_ in f_act["params"]][0].get("dim") or None
                n_p = 2 if v in ("SO2", "SE2") else 3
                ps = [sp.Symbol("p%d" % i) for i in range(n_p)]
                qs = [sp.Symbol("q%d" % i) for i in range(n_p)]
                pv = S.Mat(n_p, 1)
                pv.cells = [J.JetNum({0: p_}) for p_ in ps]
                pvd = S.Mat(n_p, 1)
                pvd.cells = [J.JetNum({0: p_ + ETA * q_}) for p_, q_ in zip(ps, qs)]
                Ja, Jav = Jout(n_p, dof)
                Jb, Jbv = Jout(n_p, n_p)
                r0 = call(f_act, X, [pv, Jav, Jbv], "act(J,J)")
                check(op, "X", Ja, vdiff(call(f_act, Xd, [pv, None, None], op), r0), ds, f_act)
                check(op, "p", Jb, vdiff(call(f_act, X, [pvd, None, None], op), r0), qs, f_act)
            elif op in ("t.rplus", "t.lplus", "t.plus"):
                # tangent-side spellings; documented (in-class) positions: first the Jacobian w.r.t. the tangent, then w.r.t. m
                short = op[2:]
                f = fn(TB, short, own_t, lambda g: g["params"] and gcls.split("::")[-1] + "<" in str(g["params"][0].get("cty", "")) and "Tangent" not in str(g["params"][0].get("cty", "")))
                Jt_, Jtv = Jout()
                Jm_, Jmv = Jout()
                r0 = call(f, ty, [X, Jtv, Jmv], op + "(J,J)")
                check(op, "t", Jt_, gdiff(call(f, tyd, [X, None, None], op), r0), ds, f)
                check(op, "m", Jm_, gdiff(call(f, ty, [Xd, None, None], op), r0), ds, f)
            elif op == "exp":
                Jm, Jv = Jout()
                r0 = call(f_exp, tx, [Jv], "exp(J)")
                check(op, "t", Jm, gdiff(call(f_exp, txd, [None], op), r0), ds, f_exp)
            elif op == "log":
                Jm, Jv = Jout()
                r0 = call(f_log, X, [Jv], "log(J)")
                check(op, "X", Jm, vdiff(call(f_log, Xd, [None], op), r0), ds, f_log)
    finally:
        S.POLY, S.JET, J.NILPOTENT, J.ORDER = old
    return n_obl


QUICK = [(v, op, 2, 7) for v in ("SO2", "SE2") for op in OPS] + \
        [("SO3", op, 2, 3) for op in ("inverse", "compose", "between", "act")] + [("SO3", op, 2, 6) for op in ("exp", "log", "rminus")]
THOROUGH_EXTRA = [("SO3", "rplus", 2, 7), ("SO3", "lplus", 2, 7), ("SO3", "lminus", 2, 6),
                  ("SE3", "inverse", 2, 3), ("SE3", "between", 2, 3), ("SE3", "act", 2, 3), ("SE3", "exp", 2, 7)]


class _Collector:
    def __init__(self):
        self.n_ok, self.findings = 0, []

    def obligation(self, holds, mk):
        if holds:
            self.n_ok += 1
        else:
            self.findings.append(mk())


def _worker(job):
    repo, prop, v, op, order, margin = job
    if repo != C.REPO:
        C.set_repo(repo)
    col = _Collector()
    try:
        n = analyse(col, prop, v, [op], order, margin)
    except C.AnalysisBroken as ex:
        return v, op, 0, col.n_ok, col.findings, str(ex)
    except (ArithmeticError, ValueError, TypeError, KeyError, AttributeError, RecursionError) as ex:
        return v, op, 0, col.n_ok, col.findings, "R-SERIES.deriv: interpreter error on %s/%s: %r" % (v, op, ex)
    return v, op, n, col.n_ok, col.findings, None


def check(rep, prop):
    """One process per (group, operation); returns the number of Jacobian rows compared."""
    import multiprocessing as mp
    jobs = QUICK + (THOROUGH_EXTRA if C.tier() == "thorough" else [])
    FX.get("SE2")
    ctx = mp.get_context("fork")
    with ctx.Pool(min(len(jobs), 12)) as pool:
        res = pool.map(_worker, [(C.REPO, prop) + j for j in jobs], chunksize=1)
    total = 0
    for v, op, n, n_ok, findings, broke in res:
        if broke:
            rep.broke(broke)
        rep.ok(n_ok)
        for f in findings:
            rep.fail(f)
        total += n
    rep.section("deriv", tier=C.tier(), jobs=[{"variant": j[0], "operation": j[1], "order": j[2]} for j in jobs], rows_compared=total)
    return total
