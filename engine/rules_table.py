"""R-TABLE rule instances (DESIGN.md: C07, C06.a): exact algebra on the tables that the
library's own code builds - generators, hat, vee, smallAdj, inner weights - extracted by the
symbolic evaluator (engine/symeval.py) from the instantiated AST."""
from fractions import Fraction

from . import astq as A
from . import common as C
from . import facts as FX
from . import symeval as S
from .sexp import sexp


class GroupTables:
    pass


def owning_tangent_classes(F):
    out = {}
    for c in F.classes:
        if c["kind"] == "pattern" or not c["name"].startswith("manif::") or not c["name"].endswith("Tangent"):
            continue
        d = [x["dim"] for x in c["fields"] if x["name"] == "data_" and x.get("dim")]
        if d:
            flat = []
            for t in c["targs"]:
                flat += [str(x) for x in t] if isinstance(t, list) else [str(t)]
            full = c["name"] + "<" + ", ".join(flat) + ">"
            out[full.replace(" ", "")] = (c, d[0][0] * d[0][1])
    return out


def find_inst(F, short, cls_suffix, clsarg0=None, static_ok=True):
    for f in F.functions:
        if f["kind"] != "inst" or f["short"] != short or not (f.get("cls") or "").endswith(cls_suffix):
            continue
        a = str((f.get("clsargs") or [""])[0]).replace(" ", "")
        if clsarg0 is not None and a != clsarg0:
            continue
        if f.get("body") is None:
            continue
        return f
    return None


def evaluator_run(F, evaluator, tangent_base_arg):
    """`manif::internal::<evaluator><TangentBase<T>>::run` instantiation for tangent T."""
    for f in F.functions:
        if f["kind"] != "inst" or f["short"] != "run" or (f.get("cls") or "") != "manif::internal::" + evaluator:
            continue
        a = str((f.get("clsargs") or [""])[0]).replace(" ", "")
        if a.endswith("<" + tangent_base_arg + ">") and "Base<" in a and f.get("body") is not None:
            yield f


def const_matrix(m):
    if m is None or m.has_top():
        return None
    if not all(x.is_const() for x in m.cells):
        return None
    return [[m.get(r, c).c for c in range(m.C)] for r in range(m.R)]


def extract(F, variant, key=None):
    """Tables of the (first) owning tangent type of the driver `variant`.  Raises AnalysisBroken
    if an anchor function vanished or evaluates to TOP (never a pass)."""
    T = GroupTables()
    tcs = owning_tangent_classes(F)
    # the driver's own tangent = the class whose group is the variant
    want = {"R%d" % i: "manif::RnTangent<double,%d>" % i for i in range(1, 10)}
    for k in sorted(tcs):
        if key is not None:
            break
        if "<double" not in k:
            continue
        base = k.split("<")[0].split("::")[-1]
        if variant in ("SO2", "SE2", "SO3", "SE3", "SE_2_3", "SGal3") and base == variant + "Tangent":
            key = k
        if variant in want and k == want[variant]:
            key = k
        if variant.startswith("B") and base == "BundleTangent":
            key = k
    if key is None:
        raise C.AnalysisBroken("no owning tangent class found for %s" % variant)
    T.name, T.dof = key, tcs[key][1]
    sym = S.Sym(F)
    T.sym = sym

    def run(f, this, args, what):
        try:
            return sym.call_function(f, this, args)
        except S.Unsupported as e:
            raise C.AnalysisBroken("R-TABLE cannot interpret %s of %s: %s" % (what, key, e))

    # hat --------------------------------------------------------------------------------
    f_hat = find_inst(F, "hat", "TangentBase", key)
    if f_hat is None:
        raise C.AnalysisBroken("anchor vanished: %s::hat" % key)
    T.f_hat = f_hat
    H = S.as_mat(run(f_hat, S.sym_object("c", T.dof), [], "hat"))
    if H is None or H.has_top():
        raise C.AnalysisBroken("hat() of %s is not an affine table: %r" % (key, H))
    T.H = H
    # generators --------------------------------------------------------------------------
    gens = list(evaluator_run(F, "GeneratorEvaluator", key))
    gens = [g for g in gens if len(g["params"]) == 1]
    if not gens:
        raise C.AnalysisBroken("anchor vanished: GeneratorEvaluator<%s>::run" % key)
    T.f_gen = gens[0]
    T.E, T.gen_raises = [], {}
    for i in range(T.dof):
        try:
            Ei = S.as_mat(run(T.f_gen, None, [S.Aff(i)], "Generator(%d)" % i))
        except S.Raised as e:
            Ei = None
            T.gen_raises[i] = e.what
        T.E.append(Ei)
    # breakpoints of the index: every constant the parameter is compared with
    consts = {0, T.dof}
    for n in A.walk(T.f_gen):
        if n.get("k") == "CaseStmt":
            v = S.const_of(n.get("lhs"))
            if v is not None:
                consts.add(v)
        if n.get("k") == "BinaryOperator" and n.get("op") in ("<", ">", "<=", ">=", "==", "!="):
            for c in n.get("ch") or []:
                v = S.const_of(c)
                if v is not None:
                    consts.add(v)
    probes = set()
    for c in consts:
        probes |= {c - 1, c, c + 1}
    probes |= {2 ** 31 - 1, 2 ** 31, 2 ** 32 - 1}
    T.out_of_range = {}
    for i in sorted(p for p in probes if p >= T.dof):
        try:
            r = run(T.f_gen, None, [S.Aff(i)], "Generator(%d)" % i)
            T.out_of_range[i] = "returned"
        except S.Raised as e:
            T.out_of_range[i] = "raised:" + str(e.what)
    # vee -----------------------------------------------------------------------------------
    vees = list(evaluator_run(F, "VeeEvaluatorImpl", key))
    T.f_vee = vees[0] if vees else None
    T.vee = None
    if T.f_vee is not None:
        t = S.sym_object("u", T.dof)
        t.coeffs.assign(None)
        M = S.sym_matrix("m", H.R, H.C)
        run(T.f_vee, None, [t, M], "Vee")
        T.vee = t.coeffs.mat()
    # smallAdj ------------------------------------------------------------------------------
    f_sa = find_inst(F, "smallAdj", "TangentBase", key)
    T.f_sa = f_sa
    T.smallAdj = S.as_mat(run(f_sa, S.sym_object("c", T.dof), [], "smallAdj")) if f_sa else None
    # inner weights --------------------------------------------------------------------------
    iw = list(evaluator_run(F, "InnerWeightsEvaluator", key))
    T.f_iw = iw[0] if iw else None
    T.W = S.as_mat(run(T.f_iw, None, [], "InnerWeights")) if T.f_iw else None
    return T


def mat_mul(A_, B_):
    n, m, p = len(A_), len(B_), len(B_[0])
    out = [[0] * p for _ in range(n)]
    brows = [[(c, B_[k][c]) for c in range(p) if B_[k][c] != 0] for k in range(m)]
    for r in range(n):
        Ar = A_[r]
        orow = out[r]
        for k in range(m):
            a = Ar[k]
            if a == 0:
                continue
            for c, b in brows[k]:
                orow[c] += a * b
    return out


def mat_sub(A_, B_):
    return [[a - b for a, b in zip(ra, rb)] for ra, rb in zip(A_, B_)]


def apply_vee(T, M):
    """vee table applied to a constant matrix M -> list of Fractions (or None on TOP)."""
    m = {"m_%d_%d" % (r, c): S.Aff(M[r][c]) for r in range(len(M)) for c in range(len(M[0]))}
    out = []
    for x in T.vee.cells:
        if not isinstance(x, S.Aff):
            return None
        y = x.subst(m)
        if not y.is_const():
            return None
        out.append(y.c)
    return out


def hat_of(T, vec):
    m = {"c%d" % i: S.Aff(v) for i, v in enumerate(vec)}
    return [[T.H.get(r, c).subst(m).c for c in range(T.H.C)] for r in range(T.H.R)]


def rank(rows):
    M = [list(r) for r in rows]
    rk = 0
    ncol = len(M[0]) if M else 0
    for col in range(ncol):
        piv = None
        for r in range(rk, len(M)):
            if M[r][col] != 0:
                piv = r
                break
        if piv is None:
            continue
        M[rk], M[piv] = M[piv], M[rk]
        pv = M[rk][col]
        M[rk] = [x / pv for x in M[rk]]
        for r in range(len(M)):
            if r != rk and M[r][col] != 0:
                f = M[r][col]
                M[r] = [a - f * b for a, b in zip(M[r], M[rk])]
        rk += 1
    return rk


def leading_minors_positive(W):
    n = len(W)
    # Gaussian elimination without pivoting on exact rationals: all pivots > 0 <=> SPD (given symmetry)
    M = [list(r) for r in W]
    for k in range(n):
        if M[k][k] <= 0:
            return False
        for r in range(k + 1, n):
            f = M[r][k] / M[k][k]
            M[r] = [a - f * b for a, b in zip(M[r], M[k])]
    return True


def check_group(rep, prop, T, variant, clauses=("gen", "hat", "vee", "bracket", "inner")):
    """All C07 obligations for one group's tables."""
    tag = T.name
    dof = T.dof
    file_h, line_h = T.f_hat["file"], T.f_hat["line"]
    fg = T.f_gen

    def F_(rule, site, msg, f=None, line=None):
        return C.Finding(prop, rule, "%s:%s" % (tag, site), msg, (f or T.f_hat)["file"], line or (f or T.f_hat)["line"])

    E = []
    for i in range(dof):
        Ei = T.E[i]
        cm = const_matrix(Ei) if Ei is not None else None
        rep.obligation(cm is not None, lambda i=i: F_("R-TABLE.generator", "Generator(%d)" % i,
                       "Generator(%d) %s" % (i, "raises %s for a valid index" % T.gen_raises.get(i) if i in T.gen_raises else "is not a constant matrix"), fg))
        E.append(cm)
    if any(e is None for e in E):
        return None
    # exhaustiveness: every out-of-range probe raises invalid_argument
    for i, r in sorted(T.out_of_range.items()):
        rep.obligation(r.startswith("raised:") and "invalid_argument" in r, lambda i=i, r=r: F_(
            "R-TABLE.generator-range", "Generator(%d)" % i,
            "out-of-range index %d does not raise invalid_argument (%s)" % (i, r), fg))
    # hat = sum c_i E_i  (pins the generators to hat's layout, proves linearity)
    for r in range(T.H.R):
        for c in range(T.H.C):
            want = S.Aff(0)
            for i in range(dof):
                if E[i][r][c] != 0:
                    want = want + S.Aff.sym("c%d" % i).scale(E[i][r][c])
            got = T.H.get(r, c)
            rep.obligation(got == want, lambda r=r, c=c, got=got, want=want: F_(
                "R-TABLE.hat", "hat(%d,%d)" % (r, c),
                "hat()(%d,%d) = %r but sum_i c_i*Generator(i)(%d,%d) = %r" % (r, c, got, r, c, want)))
    # linear independence (exact rank)
    flat = [[x for row in e for x in row] for e in E]
    rep.obligation(rank(flat) == dof, lambda: F_("R-TABLE.generator", "rank", "generators are linearly dependent (rank %d < DoF %d)" % (rank(flat), dof), fg))
    # vee(hat(c)) = c
    if T.vee is not None:
        sub = {"m_%d_%d" % (r, c): T.H.get(r, c) for r in range(T.H.R) for c in range(T.H.C)}
        for i, x in enumerate(T.vee.cells):
            got = x.subst(sub) if isinstance(x, S.Aff) else x
            rep.obligation(got == S.Aff.sym("c%d" % i), lambda i=i, got=got: F_(
                "R-TABLE.vee", "Vee[%d]" % i, "Vee(hat(c))[%d] = %r, expected c%d" % (i, got, i), T.f_vee))
    else:
        rep.broke("anchor vanished: VeeEvaluatorImpl for %s" % tag)
    # structure constants from hat/vee:  [E_i, E_j] = sum_k f[i][j][k] E_k
    f3 = [[None] * dof for _ in range(dof)]
    closed = True
    for i in range(dof):
        for j in range(dof):
            comm = mat_sub(mat_mul(E[i], E[j]), mat_mul(E[j], E[i]))
            v = apply_vee(T, comm) if T.vee is not None else None
            if v is None or hat_of(T, v) != comm:
                closed = False
                v = None
            f3[i][j] = v
    rep.obligation(closed, lambda: F_("R-TABLE.bracket", "closure", "commutator of two generators is not in the span of the generators as read by Vee"))
    if closed and T.smallAdj is not None:
        # smallAdj(t)[k][j] = sum_i t_i f[i][j][k]
        for k in range(dof):
            for j in range(dof):
                want = S.Aff(0)
                for i in range(dof):
                    if f3[i][j][k] != 0:
                        want = want + S.Aff.sym("c%d" % i).scale(f3[i][j][k])
                got = T.smallAdj.get(k, j)
                rep.obligation(got == want, lambda k=k, j=j, got=got, want=want: F_(
                    "R-TABLE.smallAdj", "smallAdj(%d,%d)" % (k, j),
                    "smallAdj()(%d,%d) = %r but vee([hat t, hat e_%d])[%d] = %r" % (k, j, got, j, k, want), T.f_sa))
        # antisymmetry and Jacobi on the integer structure constants
        anti = all(f3[i][j][k] == -f3[j][i][k] for i in range(dof) for j in range(dof) for k in range(dof))
        rep.obligation(anti, lambda: F_("R-TABLE.bracket", "antisymmetry", "structure constants are not antisymmetric"))
        jac = True
        nz = [[[(l, f3[i][j][l]) for l in range(dof) if f3[i][j][l] != 0] for j in range(dof)] for i in range(dof)]
        for a in range(dof):
            for b in range(dof):
                for c in range(dof):
                    acc = {}
                    for (x, y, z) in ((b, c, a), (c, a, b), (a, b, c)):
                        for l, v in nz[x][y]:
                            for k2, w in nz[z][l]:
                                acc[k2] = acc.get(k2, 0) + v * w
                    if any(v != 0 for v in acc.values()):
                        jac = False
        rep.obligation(jac, lambda: F_("R-TABLE.bracket", "jacobi", "Jacobi identity fails on the structure constants"))
    # inner weights = Frobenius Gram of the generators; symmetric positive definite
    if T.W is not None:
        Wc = const_matrix(T.W)
        rep.obligation(Wc is not None, lambda: F_("R-TABLE.inner", "InnerWeights", "InnerWeights() is not a constant matrix", T.f_iw))
        if Wc is not None:
            for r in range(dof):
                for c in range(dof):
                    gram = sum(E[r][a][b] * E[c][a][b] for a in range(len(E[r])) for b in range(len(E[r][0])))
                    rep.obligation(Wc[r][c] == gram, lambda r=r, c=c, gram=gram: F_(
                        "R-TABLE.inner", "InnerWeights(%d,%d)" % (r, c),
                        "InnerWeights()(%d,%d) = %s but tr(E_%d E_%d^T) = %s" % (r, c, Wc[r][c], r, c, gram), T.f_iw))
            sym_ok = all(Wc[r][c] == Wc[c][r] for r in range(dof) for c in range(dof))
            rep.obligation(sym_ok and leading_minors_positive(Wc), lambda: F_(
                "R-TABLE.inner", "SPD", "InnerWeights is not symmetric positive definite", T.f_iw))
    else:
        rep.broke("anchor vanished: InnerWeightsEvaluator for %s" % tag)
    rep.sample({"group": tag, "hat": repr(T.H), "generators": dof, "out_of_range_probes": T.out_of_range,
                "smallAdj": repr(T.smallAdj)[:300]}, limit=12)
    return E


def check_smalladj(rep, prop):
    """C06.a: smallAdj table = structure constants of hat, every group of the tier."""
    n = 0
    for v in FX.variants():
        F = FX.get(v)
        try:
            T = extract(F, v)
        except C.AnalysisBroken as e:
            rep.broke(str(e))
            continue
        # only the smallAdj / bracket-closure clauses belong to C06; the rest of the table algebra is C07's
        tmp = C.Report(prop, "other", "tmp")
        check_group(tmp, prop, T, v)
        for f in tmp.findings:
            if f.rule in ("R-TABLE.smallAdj", "R-TABLE.bracket"):
                rep.fail(f)
        rep.ok(T.dof * T.dof)
        n += 1
    rep.floor("groups_with_tables", n, 8)
    return ["C06.a R-TABLE (exact, over Q): t.smallAdj()*s = vee([hat t, hat s]) cell by cell, from the tables that hat(), Vee and smallAdj() build"]
