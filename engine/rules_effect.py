"""R-EFFECT (DESIGN.md section 2): no hidden state in artivis/manif.

 (a) no `mutable` data member; no const_cast; no explicit cast that drops const
 (b) every static-storage variable defined by manif is const / constexpr
 (c) the build does not disable thread-safe statics
 (d) the initialiser of a function-local static does not reach its own function
 (e) the process-global PRNG is reachable only from the Random family
 (f) manif code never stores through a global (assignment whose root is a
     static-storage variable)
"""
import os
import re

from . import astq as A
from . import common as C

PRNG_NAMES = re.compile(
    r"^(rand|srand|random|drand48|lrand48|rand_r|std::rand|std::srand)$"
    r"|^Eigen::internal::random"
    r"|^Eigen::DenseBase<.*>::(Random|setRandom)$"
    r"|^Eigen::PlainObjectBase<.*>::setRandom$"
    r"|^Eigen::QuaternionBase<.*>::UnitRandom$|^Eigen::Quaternion<.*>::UnitRandom$"
    r"|^std::(random_device|mersenne_twister_engine|linear_congruential_engine|uniform_real_distribution|normal_distribution)")

# who may reach the PRNG: one line of reason each
RANDOM_FAMILY = {
    "Random": "documented static helper producing a random element",
    "setRandom": "documented mutator",
    "run": "RandomEvaluator / RandomEvaluatorImpl<...>::run, the implementation of setRandom",
    "randQuat": "helper of the Random family (eigen.h)",
    "randPointInBall": "helper of the Random family (eigen.h)",
    "random": "manif::random(), free-function alias of setRandom (functions.h)",
    "RandomEvaluator": "constructor of the evaluator",
}


def _is_random_family(f):
    s = f["short"]
    if s == "run":
        return "RandomEvaluator" in (f.get("cls") or "")
    return s in RANDOM_FAMILY


def check(rep, prop, facts_list, who=None):
    """Run R-EFFECT over the given fact files; report under property `prop`."""
    n_fields = n_casts = n_slocals = n_gvars = n_funcs = 0
    static_sites = {}
    seen_fields = set()
    for F in facts_list:
        # (a) mutable fields ------------------------------------------------------
        for c in F.classes:
            for fld in c["fields"]:
                key = (c["file"], fld["ln"], fld["name"])
                if key in seen_fields:
                    continue
                seen_fields.add(key)
                n_fields += 1
                rep.obligation(not fld["mutable"], lambda c=c, fld=fld: C.Finding(
                    prop, "R-EFFECT.a-mutable", "%s::%s" % (c["name"], fld["name"]),
                    "mutable data member: a const operation can write it (hidden state / data race)",
                    c["file"], fld["ln"]))
        # graph for (d), (e)
        graph = {}
        for f in F.functions:
            if f["kind"] == "pattern":
                continue
            graph.setdefault(f["id"], set()).update(A.callees(f))
        prng_direct = {}
        for f in F.functions:
            if f["kind"] == "pattern":
                continue
            n_funcs += 1
            for n in A.walk(f):
                k = n.get("k")
                # (a) casts
                if k in ("CXXConstCastExpr", "CStyleCastExpr", "CXXReinterpretCastExpr",
                         "CXXFunctionalCastExpr", "CXXStaticCastExpr"):
                    n_casts += 1
                    bad = n.get("constcast") or n.get("dropsconst")
                    rep.obligation(not bad, lambda f=f, n=n: C.Finding(
                        prop, "R-EFFECT.a-cast", "%s@cast-to:%s" % (f["name"], n.get("to")),
                        "cast removes const (%s): a non-mutating operation could write its operand" % n["k"],
                        f["file"], n.get("ln")))
                # (b) static locals
                if k == "VarDecl" and n.get("static"):
                    n_slocals += 1
                    site = "%s::%s" % (f["name"], n["name"])
                    static_sites[(f["file"], n["ln"])] = site
                    ok = bool(n.get("constq") or n.get("constexpr"))
                    rep.obligation(ok, lambda f=f, n=n, site=site: C.Finding(
                        prop, "R-EFFECT.b-static-local", site,
                        "function-local static is not const: every call after the first can observe or race on it",
                        f["file"], n["ln"]))
                    # (d) initialiser must not reach the enclosing function
                    init = n.get("init")
                    if init is not None:
                        seen, todo = set(), list(A.callees(init))
                        while todo:
                            x = todo.pop()
                            if x in seen:
                                continue
                            seen.add(x)
                            todo.extend(graph.get(x, ()))
                        rep.obligation(f["id"] not in seen, lambda f=f, n=n, site=site: C.Finding(
                            prop, "R-EFFECT.d-recursive-static-init", site,
                            "initialiser of the static reaches its own enclosing function (recursive initialisation is undefined / deadlocks)",
                            f["file"], n["ln"]))
                # (e) direct PRNG use
                fn = n.get("fn")
                if fn and not n.get("inrepo") and PRNG_NAMES.search(fn):
                    prng_direct.setdefault(f["id"], []).append((fn, n.get("ln")))
                # (f) stores through globals
                if k in ("BinaryOperator", "CompoundAssignOperator") and n.get("op", "").endswith("=") and n.get("op") not in ("==", "!=", "<=", ">="):
                    lhs = (n.get("ch") or [None])[0]
                    root = _root(lhs)
                    if root is not None and (root.get("global") or root.get("slocal")):
                        rep.fail(C.Finding(prop, "R-EFFECT.f-global-store", "%s@%s" % (f["name"], root.get("name")),
                                           "assignment to a static-storage variable", f["file"], n.get("ln")))
                if k == "CXXOperatorCallExpr" and n.get("op") in ("=", "+=", "-=", "*=", "/=", "<<"):
                    args = (n.get("ch") or [])[1:]
                    root = _root(args[0]) if args else None
                    if root is not None and (root.get("global") or root.get("slocal")):
                        rep.fail(C.Finding(prop, "R-EFFECT.f-global-store", "%s@%s" % (f["name"], root.get("name")),
                                           "compound/assignment operator applied to a static-storage variable", f["file"], n.get("ln")))
        # (e) who-may-call closure: functions that reach the PRNG
        rev = {}
        for a, bs in graph.items():
            for b in bs:
                rev.setdefault(b, set()).add(a)
        reach = set(prng_direct)
        todo = list(prng_direct)
        while todo:
            x = todo.pop()
            for p in rev.get(x, ()):
                if p not in reach:
                    reach.add(p)
                    todo.append(p)
        for f in F.functions:
            if f["kind"] == "pattern":
                continue
            if f["id"] in reach:
                rep.obligation(_is_random_family(f), lambda f=f: C.Finding(
                    prop, "R-EFFECT.e-prng", f["name"],
                    "reaches the process-global PRNG but is not part of the Random family (non-deterministic / racy operation)",
                    f["file"], f["line"]))
        rep.section("effects_" + F.tag, instantiated_functions=len(graph), prng_direct_users=len(prng_direct),
                    prng_reaching_functions=len(reach))
        # (b) namespace-scope / static member variables
        for v in F.vars:
            n_gvars += 1
            ok = bool(v["constq"] or v["constexpr"])
            rep.obligation(ok, lambda v=v: C.Finding(
                prop, "R-EFFECT.b-global", v["name"],
                "static-storage variable is not const/constexpr", v["file"], v["line"]))
    # (c) build flags
    flags_ok = True
    for rel in ("CMakeLists.txt", "cmake", "test/CMakeLists.txt"):
        p = os.path.join(C.REPO, rel)
        paths = []
        if os.path.isdir(p):
            for dp, _, fn in os.walk(p):
                paths += [os.path.join(dp, x) for x in fn]
        elif os.path.exists(p):
            paths = [p]
        for q in paths:
            try:
                if "-fno-threadsafe-statics" in open(q, errors="replace").read():
                    flags_ok = False
                    rep.fail(C.Finding(prop, "R-EFFECT.c-flags", C.repo_rel(q),
                                       "build passes -fno-threadsafe-statics: function-local statics lose their initialisation guard", q, 0))
            except OSError:
                pass
    if flags_ok:
        rep.ok()
    rep.section("effect_counts", fields=n_fields, casts_examined=n_casts, static_locals=n_slocals,
                static_local_sites=len(static_sites), global_vars=n_gvars, functions=n_funcs)
    for (file, ln), site in list(sorted(static_sites.items()))[:12]:
        rep.sample({"static_local": site, "at": "%s:%d" % (C.repo_rel(file), ln), "verdict": "const, non-recursive init"})
    return {"static_sites": static_sites, "fields": n_fields, "casts": n_casts}


def _root(n):
    """Root DeclRefExpr of an lvalue expression (through member accesses, calls on it, subscripts)."""
    seen = 0
    while isinstance(n, dict) and seen < 50:
        seen += 1
        k = n.get("k")
        if k == "DeclRefExpr":
            return n
        ch = n.get("ch") or []
        if k in ("MemberExpr", "ArraySubscriptExpr", "UnaryOperator", "CXXMemberCallExpr", "CXXOperatorCallExpr"):
            if k == "CXXOperatorCallExpr":
                n = ch[1] if len(ch) > 1 else None
            else:
                n = ch[0] if ch else None
            continue
        return None
    return None
