"""R-POLY: abstract interpretation of the coefficient-level group code over the polynomial ring
Q[coefficients] (with TOP), used by C01.  Extends the affine-form interpreter (symeval) with
  * products of non-constant forms (sympy polynomials),
  * exact summaries of the Eigen quaternion operations the library calls
    (constructor from (x,y,z,w) coefficients, Hamilton product, conjugate, rotation matrix,
    rotation of a vector) - the trusted base of C01,
  * the unit-circle summary cos(atan2(im, re)) = re, sin(atan2(im, re)) = im,
  * the "valid operands" world: a branch on |norm^2 - 1| > eps is not taken (the renormalisation
    step of compose multiplies the whole rotation slice by one positive factor; C08 analyses it).
No floating point is evaluated, no path is enumerated, no solver is called.
"""
from fractions import Fraction

import sympy as sp

from . import astq as A
from . import symeval as S
from .sexp import sexp


class Quat:
    def __init__(self, x, y, z, w):
        self.x, self.y, self.z, self.w = x, y, z, w

    def coeffs(self):
        m = S.Mat(4, 1)
        m.cells = [self.x, self.y, self.z, self.w]
        return m


class AngleOf:
    """atan2(s, c) of a unit complex number (c, s)."""

    def __init__(self, s, c):
        self.s, self.c = s, c


def mul(a, b):
    return S.amul(a, b)


def add(a, b, sign=1):
    return S.aadd(a, b, sign)


def lin(*terms):
    """sum of (coefficient, value) pairs"""
    acc = S.Aff(0)
    for c, v in terms:
        acc = add(acc, mul(S.Aff(c), v))
    return acc


class NeedWorld(Exception):
    """a data-dependent precision switch (comparison of a symbolic quantity with Constants::eps) was met"""
    def __init__(self, key):
        self.key = key


class PolySym(S.Sym):
    switch_world = None      # {line of the switch: arm taken}; None = such switches are not expected (Unsupported)

    def extra_call(self, n, env, k, fn, obj, args, name, cls, dim):
        # ---- Eigen::Quaternion summaries -------------------------------------------------
        if cls.startswith("Eigen::Quaternion") or cls.startswith("Eigen::QuaternionBase") or cls.startswith("Eigen::RotationBase"):
            if k in ("CXXConstructExpr", "CXXTemporaryObjectExpr"):
                real = [a for a in args if not (isinstance(a, dict) and a.get("k") == "CXXDefaultArgExpr")]
                vals = [self.ev(a, env) for a in real]
                if len(vals) == 1:
                    v = vals[0]
                    if isinstance(v, Quat):
                        return v
                    m = S.as_mat(v)
                    if m is not None and m.R * m.C == 4:
                        c = m.cells
                        return Quat(c[0], c[1], c[2], c[3])
                    return S.TOP
                if len(vals) == 4:
                    w, x, y, z = [S.scalarize(v) for v in vals]     # Eigen: Quaternion(w, x, y, z)
                    return Quat(x, y, z, w)
                return S.TOP
            o = self.ev(obj, env) if obj is not None else None
            if k == "CXXOperatorCallExpr" and n.get("op") == "*":
                a = o if "cls" in n else self.ev(args[0], env)
                b = self.ev(args[0] if "cls" in n else args[1], env)
                if isinstance(a, Quat) and isinstance(b, Quat):
                    return Quat(
                        lin((1, mul(a.w, b.x)), (1, mul(a.x, b.w)), (1, mul(a.y, b.z)), (-1, mul(a.z, b.y))),
                        lin((1, mul(a.w, b.y)), (1, mul(a.y, b.w)), (1, mul(a.z, b.x)), (-1, mul(a.x, b.z))),
                        lin((1, mul(a.w, b.z)), (1, mul(a.z, b.w)), (1, mul(a.x, b.y)), (-1, mul(a.y, b.x))),
                        lin((1, mul(a.w, b.w)), (-1, mul(a.x, b.x)), (-1, mul(a.y, b.y)), (-1, mul(a.z, b.z))))
                if isinstance(a, Quat):
                    mb = S.as_mat(b)
                    if mb is not None and (mb.R, mb.C) == (3, 1):
                        return self.arith("*", rotmat(a), mb)
                return S.TOP
            if isinstance(o, Quat):
                if name == "coeffs":
                    return o.coeffs()
                if name == "conjugate":
                    return Quat(self.neg(o.x), self.neg(o.y), self.neg(o.z), o.w)
                if name in ("matrix", "toRotationMatrix"):
                    return rotmat(o)
                if name in ("x", "y", "z", "w"):
                    return getattr(o, name)
                if name == "squaredNorm":
                    return lin((1, mul(o.x, o.x)), (1, mul(o.y, o.y)), (1, mul(o.z, o.z)), (1, mul(o.w, o.w)))
                if name in ("_transformVector",):
                    mb = S.as_mat(self.ev(args[0], env))
                    return self.arith("*", rotmat(o), mb) if mb is not None else S.TOP
            return NotImplemented
        # ---- scalar math on constants / unit complex numbers -----------------------------------
        if not cls and name in ("atan2",) and len(args) == 2:
            return AngleOf(S.scalarize(self.ev(args[0], env)), S.scalarize(self.ev(args[1], env)))
        if not cls and name in ("cos", "sin", "sqrt", "abs") and len(args) == 1:
            v = S.scalarize(self.ev(args[0], env))
            if isinstance(v, AngleOf):
                return v.c if name == "cos" else (v.s if name == "sin" else S.TOP)
            if isinstance(v, S.Aff) and v.is_const():
                if name == "cos" and v.c == 0:
                    return S.Aff(1)
                if name == "sin" and v.c == 0:
                    return S.Aff(0)
                if name == "sqrt" and v.c in (0, 1):
                    return S.Aff(v.c)
                if name == "abs":
                    return S.Aff(abs(v.c))
            return S.TOP
        if name == "squaredNorm" and cls.startswith("Eigen::") and obj is not None:
            m = S.as_mat(self.ev(obj, env))
            if m is not None:
                acc = S.Aff(0)
                for x in m.cells:
                    acc = add(acc, mul(x, x))
                return acc
        return NotImplemented

    def neg(self, v):
        if isinstance(v, AngleOf):
            return AngleOf(S.Sym.neg(self, v.s), v.c)     # -atan2(s, c) = atan2(-s, c)
        return S.Sym.neg(self, v)

    def stmt(self, n, env):
        if self.switch_world is not None and isinstance(n, dict) and n.get("k") == "IfStmt":
            t = sexp(n.get("cond"))
            if "::eps" in t and "abs" not in t:
                c = None
                try:
                    c = self.ev(n.get("cond"), env)
                except S.Unsupported:
                    pass
                if c is not True and c is not False:
                    key = n.get("ln")
                    if key not in self.switch_world:
                        raise NeedWorld(key)
                    return S.Sym.stmt(self, n.get("then") if self.switch_world[key] else n.get("else"), env)
        # "valid operands" world: `if (abs(sqnorm - 1) > eps) { renormalise }` is not taken
        if isinstance(n, dict) and n.get("k") == "IfStmt" and n.get("else") is None:
            t = sexp(n.get("cond"))
            if "::eps" in t and "abs" in t and not any(x.get("noret") for x in A.walk(n.get("then"))):
                c = None
                try:
                    c = self.ev(n.get("cond"), env)
                except S.Unsupported:
                    pass
                if c is True or c is False:
                    return S.Sym.stmt(self, n, env)
                self.notes.append("valid-operand world: renormalisation branch at line %s not taken" % n.get("ln"))
                return
        return S.Sym.stmt(self, n, env)


def rotmat(q):
    """Eigen::QuaternionBase::toRotationMatrix (Eigen/src/Geometry/Quaternion.h)."""
    x, y, z, w = q.x, q.y, q.z, q.w
    tx, ty, tz = mul(S.Aff(2), x), mul(S.Aff(2), y), mul(S.Aff(2), z)
    twx, twy, twz = mul(tx, w), mul(ty, w), mul(tz, w)
    txx, txy, txz = mul(tx, x), mul(ty, x), mul(tz, x)
    tyy, tyz, tzz = mul(ty, y), mul(tz, y), mul(tz, z)
    one = S.Aff(1)
    m = S.Mat(3, 3)
    m.cells = [add(one, add(tyy, tzz), -1), add(txy, twz, -1), add(txz, twy),
               add(txy, twz), add(one, add(txx, tzz), -1), add(tyz, twx, -1),
               add(txz, twy, -1), add(tyz, twx), add(one, add(txx, tyy), -1)]
    return m


def cell_sym(x):
    if isinstance(x, (S.Aff, S.Poly)):
        return S.to_sym(x)
    return None


def mat_sym(m):
    """sympy Matrix of a Mat, or None if any cell is TOP / unwritten."""
    rows = []
    for r in range(m.R):
        row = []
        for c in range(m.C):
            v = cell_sym(m.get(r, c))
            if v is None:
                return None
            row.append(v)
        rows.append(row)
    return sp.Matrix(rows)


def reduce_mod(expr, relations):
    """Normal form modulo relations  (var**2 -> rhs), each monic in var**2 with rhs free of var."""
    e = sp.expand(expr)
    for var, rhs in relations:
        p = sp.Poly(e, var)
        out = 0
        for (k,), c in p.terms():
            out += c * (rhs ** (k // 2)) * (var ** (k % 2))
        e = sp.expand(out)
    return e
