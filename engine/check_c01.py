"""C01 - compose, inverse, identity and act realise the matrix group: the *exact-arithmetic* clause.

R-POLY: the coefficient-level code of transform(), compose(), inverse(), act() and Identity() is
interpreted over the polynomial ring Q[coefficients] (engine/polyeval.py) and the identities
    T(X.compose(Y)) = T(X) T(Y),   T(X.inverse()) T(X) = I,   X.act(p) = (T(X) [p;e])[:Dim],   T(Identity()) = I
are decided cell by cell as polynomial identities modulo the unit-norm relations of the rotation
parts (normal form w.r.t. a monic relation per operand).  This decides 'exactly when the library
is instantiated over an exact scalar'; the floating-point clause ('to working precision') and
overflow are NOT decided.  Eigen's quaternion product / conjugate / toRotationMatrix are exact
summaries (trusted base)."""
import sympy as sp

from . import common as C
from . import facts as FX
from . import polyeval as P
from . import symeval as S

# group variant -> (class, RepSize, (rotation slice start, length) or None, homogeneous padding of a point)
GROUPS = {
    "SO2": ("manif::SO2", 2, (0, 2), [1]),
    "SE2": ("manif::SE2", 4, (2, 2), [1]),
    "SO3": ("manif::SO3", 4, (0, 4), [1]),
    "SE3": ("manif::SE3", 7, (3, 4), [1]),
    "SE_2_3": ("manif::SE_2_3", 10, (3, 4), [1, 0]),
    "SGal3": ("manif::SGal3", 11, (3, 4), [0, 1]),
    "R3": ("manif::Rn", 3, None, [1]),
}


def find(F, cls, short, owning_arg, pred=None):
    for f in F.functions:
        if f["kind"] != "inst" or f.get("cls") != cls or f["short"] != short or f.get("body") is None:
            continue
        if str((f.get("clsargs") or [""])[0]).replace(" ", "") != owning_arg.replace(" ", ""):
            continue
        if pred and not pred(f):
            continue
        return f
    return None


def sym_obj(prefix, n):
    m = S.Mat(n, 1)
    m.cells = [S.Aff.sym("%s%d" % (prefix, i)) for i in range(n)]
    return S.Obj(S.View(m, 0, 0, n, 1))


def relations(prefix, rot):
    if rot is None:
        return []
    start, ln = rot
    syms = [sp.Symbol("%s%d" % (prefix, i)) for i in range(start, start + ln)]
    last = syms[-1]
    return [(last, 1 - sum(x ** 2 for x in syms[:-1]))]


def run(args):
    rep = C.Report("C01", "proof", "polynomial identities over Q[coefficients] modulo the unit-norm relations (R-POLY)")
    S.POLY = True
    n_groups = 0
    try:
        for v, (cls, rep_n, rot, pad) in GROUPS.items():
            if args.only and args.only != v:
                continue
            F = FX.get(v)
            own = "%s<double%s>" % (cls, ",3" if v == "R3" else "")
            base = cls + "Base"
            fT = find(F, base, "transform", own)
            fC = find(F, base, "compose", own, lambda f: str((f.get("targs") or [""])[0]).replace(" ", "") == own.replace(" ", ""))
            fI = find(F, base, "inverse", own)
            fA = find(F, base, "act", own)
            fId = find(F, "manif::LieGroupBase", "setIdentity", own)
            if not all((fT, fC, fI, fA, fId)):
                rep.broke("anchor vanished: transform/compose/inverse/act/setIdentity instantiation of %s" % own)
                continue
            worlds = [{}]
            done = 0
            group_ok = True
            while worlds and done < 8:
                world = worlds.pop(0)
                wtag = "" if not world else " [world: %s]" % ", ".join("switch at line %s on its %s arm" % (k, "then" if v else "else") for k, v in sorted(world.items()))
                try:
                    sym = P.PolySym(F)
                    sym.switch_world = world

                    def ev(f, this, argv, what):
                        try:
                            return sym.call_function(f, this, argv)
                        except (S.Unsupported, S.Raised) as e:
                            raise C.AnalysisBroken("R-POLY cannot interpret %s of %s: %s" % (what, own, e))

                    try:
                        X, Y = sym_obj("a", rep_n), sym_obj("b", rep_n)
                        TX = P.mat_sym(S.as_mat(ev(fT, X, [], "transform")))
                        TY = P.mat_sym(S.as_mat(ev(fT, Y, [], "transform")))
                        XY = ev(fC, X, [Y, None, None], "compose")
                        TXY = P.mat_sym(S.as_mat(ev(fT, XY, [], "transform(compose)")))
                        Xi = ev(fI, X, [None], "inverse")
                        TXi = P.mat_sym(S.as_mat(ev(fT, Xi, [], "transform(inverse)")))
                        dim = TX.shape[0] - len(pad)
                        pv = S.Mat(dim, 1)
                        pv.cells = [S.Aff.sym("p%d" % i) for i in range(dim)]
                        act = S.as_mat(ev(fA, X, [pv, None, None], "act"))
                        actm = P.mat_sym(act)
                        Idobj = sym_obj("z", rep_n)
                        ev(fId, Idobj, [], "setIdentity")
                        TId = P.mat_sym(S.as_mat(ev(fT, Idobj, [], "transform(Identity)")))
                    except C.AnalysisBroken as e:
                        rep.broke(str(e))
                        continue
                    if any(m is None for m in (TX, TY, TXY, TXi, actm, TId)):
                        rep.broke("R-POLY: a matrix of %s is not polynomial in the coefficients (TOP cell): TX=%s TXY=%s TXi=%s act=%s TId=%s" % (
                            own, TX is not None, TXY is not None, TXi is not None, actm is not None, TId is not None))
                        continue
                    n_groups += 1 if done == 0 else 0
                    rel = relations("a", rot) + relations("b", rot)

                    def F_(rule, site, msg, f):
                        return C.Finding("C01", rule, "%s:%s%s" % (own, site, wtag), msg + wtag, f["file"], f["line"])

                    n = TX.shape[0]
                    D = (TXY - TX * TY)
                    for r in range(n):
                        for c in range(n):
                            d = P.reduce_mod(D[r, c], rel)
                            rep.obligation(d == 0, lambda r=r, c=c, d=d: F_(
                                "R-POLY.compose", "compose(%d,%d)" % (r, c),
                                "matrix of X.compose(Y) differs from T(X)*T(Y) at (%d,%d) by %s (polynomial in the coefficients a*, b*; non-zero modulo |rotation| = 1)" % (r, c, str(d)[:160]), fC))
                    D = TXi * TX - sp.eye(n)
                    for r in range(n):
                        for c in range(n):
                            d = P.reduce_mod(D[r, c], rel)
                            rep.obligation(d == 0, lambda r=r, c=c, d=d: F_(
                                "R-POLY.inverse", "inverse(%d,%d)" % (r, c), "T(X.inverse())*T(X) - I is %s at (%d,%d)" % (str(d)[:160], r, c), fI))
                    hp = sp.Matrix([sp.Symbol("p%d" % i) for i in range(dim)] + pad)
                    want = (TX * hp)[:dim, 0]
                    for r in range(dim):
                        d = P.reduce_mod(actm[r, 0] - want[r], rel)
                        rep.obligation(d == 0, lambda r=r, d=d: F_("R-POLY.act", "act[%d]" % r, "X.act(p)[%d] - (T(X)[p;%s])[%d] = %s" % (r, pad, r, str(d)[:160]), fA))
                    for r in range(n):
                        for c in range(n):
                            rep.obligation(TId[r, c] == (1 if r == c else 0), lambda r=r, c=c: F_(
                                "R-POLY.identity", "Identity(%d,%d)" % (r, c), "Identity().transform()(%d,%d) = %s" % (r, c, TId[r, c]), fId))
                except P.NeedWorld as nw:
                    w1 = dict(world); w1[nw.key] = True; worlds.append(w1)
                    w0 = dict(world); w0[nw.key] = False; worlds.append(w0)
                    continue
                done += 1
            if worlds:
                rep.broke("R-POLY: too many data-dependent switches in the group operations of %s" % own)
            rep.sample({"group": own, "T(X)": str(TX.tolist())[:400], "compose_coeffs": [str(P.cell_sym(x))[:80] for x in XY.coeffs.mat().cells][:6]}, limit=8)
    finally:
        S.POLY = False
    if not args.only:
        rep.floor("groups", n_groups, 7)
    rep.rules = [
        "R-POLY.compose: every cell of T(X.compose(Y)) - T(X)T(Y) is the zero polynomial modulo the unit-norm relations of X and Y (=> associativity)",
        "R-POLY.inverse: T(X.inverse()) T(X) = I modulo the unit-norm relation (=> two-sided inverse, since T is injective on valid elements)",
        "R-POLY.act: X.act(p) equals T(X) applied to p in homogeneous coordinates",
        "R-POLY.identity: Identity() = exp(0) has the identity matrix (=> neutral element)",
        "evaluated in the valid-operand world (the renormalisation branch of compose, which rescales the rotation slice by one positive factor, is analysed by C08); Bundle follows from C11 (direct product) and is not re-derived here",
    ]
    rep.units = ["%s_double_own_funcs_debug" % v for v in GROUPS]
    rep.trusted = ["exact summaries of Eigen::Quaternion (coefficient order x,y,z,w; Hamilton product; conjugate; toRotationMatrix; quaternion * vector)",
                   "cos(atan2(im, re)) = re, sin(atan2(im, re)) = im on the unit circle", "sympy polynomial arithmetic", "clang AST"]
    rep.assumptions = ["decides the exact-arithmetic clause only: floating-point accuracy ('working precision'), overflow for large coordinates and the w<0 hemisphere *numerics* are NOT decided (the identities hold for both hemispheres as polynomial identities)"]
    rep.checker_cmd = "manif-sa plugin + engine/polyeval.py (polynomial-domain abstract interpreter) + sympy normal forms"
    return rep.finish()
