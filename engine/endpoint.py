"""R-END: decide end-point identities of group-valued terms (DESIGN.md 10.7).

A term produced by termeval (vocabulary compose / inverse / exp / log / mul / neg / add and scalar
arithmetic) is evaluated, after substituting constants for some scalar atoms, in the *free group* over
the atoms {A, B, ..., exp(v) for an irreducible tangent term v}, using only laws that hold in every
Lie group and that the other properties establish:

    associativity, X X^-1 = e                       (C01)
    exp(0) = e, exp(-v) = exp(v)^-1                 (C02)
    exp(log W) = W                                  (C03)
    0 * v = 0, 1 * v = v, (-1) * v = -v

`log(exp v) = v` is NOT used (it only holds on the principal branch).  The result is a reduced word;
two terms are declared equal only when their reduced words coincide, so a "proved equal" verdict is
sound under the laws above, and "not proved" means the identity does not follow from them.
"""
from fractions import Fraction


class Unknown(Exception):
    pass


def parse(s):
    toks = s.replace("(", " ( ").replace(")", " ) ").split()
    pos = 0

    def rd():
        nonlocal pos
        t = toks[pos]
        pos += 1
        if t == "(":
            out = []
            while toks[pos] != ")":
                out.append(rd())
            pos += 1
            return out
        return t
    r = rd()
    if pos != len(toks):
        raise Unknown("trailing tokens in term")
    return r


def num(tok):
    try:
        return Fraction(tok.rstrip(".") if tok.endswith(".") else tok)
    except (ValueError, ZeroDivisionError):
        try:
            return Fraction(float(tok)).limit_denominator(10 ** 12)
        except ValueError:
            return None


class Eval:
    def __init__(self, scalars, groups, tangents):
        self.scalars = scalars          # name -> Fraction
        self.groups = set(groups)       # group atoms
        self.tangents = set(tangents)   # tangent atoms

    # ---- scalars ------------------------------------------------------------------------
    def scalar(self, t):
        if isinstance(t, str):
            if t in self.scalars:
                return self.scalars[t]
            v = num(t)
            if v is None:
                raise Unknown("scalar atom %s" % t)
            return v
        op = t[0]
        if op == "ite":
            c = self.boolean(t[1])
            return self.scalar(t[2] if c else t[3])
        if op == "raise":
            raise Unknown("reaches a throw")
        if op == "neg" and len(t) == 2:
            return -self.scalar(t[1])
        if op in ("+", "-", "*", "/") and len(t) == 3:
            a, b = self.scalar(t[1]), self.scalar(t[2])
            if op == "+":
                return a + b
            if op == "-":
                return a - b
            if op == "*":
                return a * b
            if b == 0:
                raise Unknown("division by zero")
            return a / b
        if op == "-" and len(t) == 2:
            return -self.scalar(t[1])
        raise Unknown("scalar term (%s ...)" % op)

    def boolean(self, t):
        if isinstance(t, list) and t[0] in ("==", "!=", "<", "<=", ">", ">=") and len(t) == 3:
            a, b = self.scalar(t[1]), self.scalar(t[2])
            return {"==": a == b, "!=": a != b, "<": a < b, "<=": a <= b, ">": a > b, ">=": a >= b}[t[0]]
        raise Unknown("condition %s" % (t if isinstance(t, str) else t[0]))

    def is_scalar(self, t):
        try:
            self.scalar(t)
            return True
        except Unknown:
            return False

    # ---- tangents: ("zero",) | ("log", word) | ("atom", name) | ("scaled", k, tangent) | ("sum", [tangents]) -------
    def tangent(self, t):
        if isinstance(t, str):
            if t in self.tangents:
                return ("atom", t)
            raise Unknown("tangent atom %s" % t)
        op = t[0]
        if op == "log" and len(t) == 2:
            w = self.group(t[1])
            if not w:
                return ("zero",)
            return ("log", tuple(w))
        if op in ("mul", "*") and len(t) == 3:
            a, b = t[1], t[2]
            if self.is_scalar(b) and not self.is_scalar(a):
                return self.scale(self.scalar(b), self.tangent(a))
            if self.is_scalar(a) and not self.is_scalar(b):
                return self.scale(self.scalar(a), self.tangent(b))
            raise Unknown("product of two non-scalars / two scalars in tangent position")
        if op == "div" or op == "/":
            return self.scale(1 / self.scalar(t[2]), self.tangent(t[1]))
        if op == "neg" and len(t) == 2:
            return self.scale(Fraction(-1), self.tangent(t[1]))
        if op in ("add", "+", "sub", "-") and len(t) == 3:
            a = self.tangent(t[1])
            b = self.tangent(t[2])
            if op in ("sub", "-"):
                b = self.scale(Fraction(-1), b)
            if a == ("zero",):
                return b
            if b == ("zero",):
                return a
            if a == self.scale(Fraction(-1), b):
                return ("zero",)
            return ("sum", (a, b))
        if op == "ite":
            c = self.boolean(t[1])
            return self.tangent(t[2] if c else t[3])
        raise Unknown("tangent term (%s ...)" % op)

    def scale(self, k, v):
        if k == 0 or v == ("zero",):
            return ("zero",)
        if k == 1:
            return v
        if v[0] == "scaled":
            return self.scale(k * v[1], v[2])
        return ("scaled", k, v)

    # ---- groups: reduced words, list of (atom, +1/-1); atom = name | ("exp", tangent) -----------------------------
    def group(self, t):
        if isinstance(t, str):
            if t in self.groups:
                return [(t, 1)]
            raise Unknown("group atom %s" % t)
        op = t[0]
        if op == "compose" and len(t) == 3:
            return reduce_word(self.group(t[1]) + self.group(t[2]))
        if op == "inverse" and len(t) == 2:
            return [(a, -e) for a, e in reversed(self.group(t[1]))]
        if op == "identity":
            return []
        if op == "exp" and len(t) == 2:
            return self.exp(self.tangent(t[1]))
        if op == "ite":
            try:
                c = self.boolean(t[1])
            except Unknown:
                a, b = self.group(t[2]), self.group(t[3])      # data-dependent choice: fine when both arms agree
                if a == b:
                    return a
                raise Unknown("data-dependent choice between  %s  and  %s" % (show(a), show(b)))
            return self.group(t[2] if c else t[3])
        raise Unknown("group term (%s ...)" % op)

    def exp(self, v):
        if v == ("zero",):
            return []
        if v[0] == "log":
            return list(v[1])                      # exp(log W) = W
        if v[0] == "scaled" and v[1] == -1:
            return [(a, -e) for a, e in reversed(self.exp(v[2]))]      # exp(-v) = exp(v)^-1
        if v[0] == "scaled" and v[1] < 0:
            return [(("exp", self.scale(-v[1], v[2])), -1)]
        return [(("exp", v), 1)]


def reduce_word(w):
    out = []
    for a, e in w:
        if out and out[-1][0] == a and out[-1][1] == -e:
            out.pop()
        else:
            out.append((a, e))
    return out


def show(w):
    if not w:
        return "identity"
    def one(a, e):
        s = a if isinstance(a, str) else "exp(%s)" % show_t(a[1])
        return s if e == 1 else s + "^-1"
    return " * ".join(one(a, e) for a, e in w)


def show_t(v):
    if v[0] == "zero":
        return "0"
    if v[0] == "atom":
        return v[1]
    if v[0] == "log":
        return "log(%s)" % show(list(v[1]))
    if v[0] == "scaled":
        return "%s*%s" % (v[1], show_t(v[2]))
    if v[0] == "sum":
        return "(%s + %s)" % (show_t(v[1][0]), show_t(v[1][1]))
    return str(v)
