"""C13 - construction, accessors and conversions are consistent and validated (DESIGN.md 3/C13).
Decided (structural): validation funnel, both assertion configurations, one threshold, slice agreement,
exact constructor/accessor round trips for the coefficient-level constructors, cast re-normalises,
Transformation and LieAlg act on the same space.  NOT decided: orthonormality of rotation(), angle
wrap-around, gimbal configurations, threshold behaviour for specific values, precision of cast."""
import os
import re

from . import astq as A
from . import common as C
from . import facts as FX
from . import symeval as S
from . import witness as W
from .rules_out import subregion
from .sexp import sexp

ROT_GROUPS = {"SO2": ("manif::SO2", 2), "SE2": ("manif::SE2", 2), "SO3": ("manif::SO3", 4), "SE3": ("manif::SE3", 4),
              "SE_2_3": ("manif::SE_2_3", 4), "SGal3": ("manif::SGal3", 4)}


def calls_in(n, name):
    return [x for x in A.walk(n) if A.is_call(x) and A.short(x.get("fn")) == name]


def own(f):
    a = str((f.get("clsargs") or [""])[0])
    return "Map" not in a and "double" in str(f.get("clsargs"))


def funnel(rep, F, v, cls):
    """(a) every non-copy constructor reaches the validating constructor."""
    ctors = [f for f in F.functions if f["kind"] == "inst" and f.get("ctor") and f.get("cls") == cls and "double" in str(f.get("clsargs"))]
    by_id = {f["id"]: f for f in ctors}
    validating = set()
    for f in ctors:
        if calls_in(f, "run") and any("AssignmentEvaluator" in str(x.get("cls")) for x in calls_in(f, "run")):
            validating.add(f["id"])
    n = 0
    for f in ctors:
        if f.get("copyctor") or f.get("movector") or not f["params"]:
            continue
        p0 = f["params"][0].get("cty", "")
        if len(f["params"]) == 1 and re.search(r"(SO2|SE2|SO3|SE3|SE_2_3|SGal3)Base<manif::", p0) and "const" in p0:
            continue    # X(const Base&): copy from an already valid element of the same type
        n += 1
        cur, seen, ok = f, set(), False
        while cur is not None and cur["id"] not in seen:
            seen.add(cur["id"])
            if cur["id"] in validating:
                ok = True
                break
            nxt = None
            for i in cur.get("inits") or []:
                if i.get("delegate"):
                    for x in A.walk(i.get("init")):
                        if x.get("k") in ("CXXConstructExpr", "CXXTemporaryObjectExpr") and x.get("fid") in by_id:
                            nxt = by_id[x["fid"]]
                            break
            cur = nxt
        sig = ", ".join(p.get("cty", "?")[:40] for p in f["params"])
        rep.obligation(ok, lambda f=f, sig=sig: C.Finding(
            "C13", "R-MPT.funnel", "%s(%s)" % (f["name"], sig), "constructor does not reach the validating constructor (AssignmentEvaluator::run): rotation data supplied through it is never checked",
            f["file"], f["line"]))
    rep.obligation(len(validating) >= 1, lambda: C.Finding("C13", "R-MPT.funnel", cls, "no constructor of %s calls AssignmentEvaluator::run" % cls, None, None))
    # (a') the validation is the last thing that happens to the coefficients: nothing in a constructor body touches the
    # storage after the validating call, and a delegating constructor's body does not touch it at all
    def storage(x):
        for y in A.walk(x):
            if y.get("k") == "MemberExpr" and y.get("name") == "data_":
                return y
            if A.is_call(y) and A.short(y.get("fn")) in ("coeffs", "coeffs_nonconst", "data") and str(y.get("cls", "")).startswith("manif::"):
                return y
        return None

    def touches(x):
        """a *write* access to the coefficient storage: assignment / compound assignment / comma-initialiser with the
        storage (or a block of it) on the left, or a mutating member call on it (normalize, setZero, ...)"""
        for y in A.walk(x):
            k_ = y.get("k")
            if k_ in ("BinaryOperator", "CompoundAssignOperator") and str(y.get("op", "")).endswith("=") and y.get("op") not in ("==", "!=", "<=", ">=") and y.get("ch"):
                h = storage(y["ch"][0])
                if h is not None:
                    return h
            if k_ == "CXXOperatorCallExpr" and y.get("op") in ("=", "+=", "-=", "*=", "/=", "<<") and y.get("ch"):
                ch = y["ch"]
                h = storage(ch[1] if len(ch) > 1 else ch[0])
                if h is not None:
                    return h
            if k_ == "CXXMemberCallExpr" and not y.get("cmeth"):
                fn_, obj_, _a = A.call_parts(y)
                nm = A.short(fn_) if fn_ else ""
                if nm in ("normalize", "setZero", "setIdentity", "setRandom", "setConstant", "fill", "swap", "quat", "normalized_inplace") and obj_ is not None:
                    h = storage(obj_) if nm != "quat" else y
                    if h is not None or nm in ("normalize", "setIdentity", "setRandom", "quat"):
                        return h or y
        return None
    for f in ctors:
        if f.get("copyctor") or f.get("movector"):
            continue
        stmts = (f.get("body") or {}).get("ch") or []
        after = stmts
        if f["id"] in validating:
            idx = max(i for i, st in enumerate(stmts) if any("AssignmentEvaluator" in str(x.get("cls")) for x in calls_in(st, "run")))
            after = stmts[idx + 1:]
        elif not any(i.get("delegate") for i in f.get("inits") or []):
            continue       # neither validating nor delegating: reported by the funnel rule above
        n += 1
        hit = next((t for t in (touches(st) for st in after) if t is not None), None)
        sig = ", ".join(p.get("cty", "?")[:40] for p in f["params"])
        rep.obligation(hit is None, lambda f=f, sig=sig, hit=hit: C.Finding(
            "C13", "R-MPT.funnel-last", "%s(%s)" % (f["name"], sig),
            "the constructor writes the coefficient storage (line %s) after the validating step (AssignmentEvaluator::run / the delegation): what is stored is no longer what was supplied and checked" % hit.get("ln"),
            f["file"], hit.get("ln")))
    return n


def assertion_sites(F, ndebug):
    """AssignmentEvaluatorImpl<GBase<..>>::run_impl and quat(MatrixBase) setters: (function, raises?, slice, op, uses eps)."""
    out = []
    for f in F.functions:
        if f["kind"] != "inst" or f.get("body") is None:
            continue
        is_eval = f.get("cls") == "manif::internal::AssignmentEvaluatorImpl" and f["short"] == "run_impl" and "Base<" in str(f.get("clsargs")) \
            and "TangentBase<" not in str(f.get("clsargs")) and not re.search(r"(Rn|Bundle)Base<", str(f.get("clsargs")))
        is_setter = f["short"] == "quat" and f["params"] and "MatrixBase" in f["params"][0].get("cty", "") and (f.get("cls") or "").endswith("Base")
        if not (is_eval or is_setter):
            continue
        raises = [x for x in A.walk(f) if x.get("noret") and "invalid_argument" in str(x.get("targs"))]
        sl, op, eps = None, None, False
        for x in A.walk(f):
            if x.get("k") == "IfStmt" and any(y.get("noret") for y in A.walk(x.get("then"))):
                c = sexp(x.get("cond"))
                eps = "::eps" in c
                m = re.search(r"\((<|<=|>|>=) ", c)
                op = ("!" if c.startswith("(! ") else "") + (m.group(1) if m else "?")
                for y in A.walk(x.get("cond")):
                    if A.is_call(y) and A.short(y.get("fn")) in ("norm", "squaredNorm"):
                        _, obj, _ = A.call_parts(y)
                        sl = region_of(obj)
        out.append((f, bool(raises), sl, op, eps))
    return out


def region_of(obj):
    """(start, length) of a head/tail/segment view on a vector, or ('all', n)."""
    o = A.strip(obj)
    if isinstance(o, dict) and o.get("k") == "CXXMemberCallExpr" and A.short(o.get("fn")) in ("head", "tail", "segment"):
        _, base, args = A.call_parts(o)
        bd = A.strip(base).get("dim") if isinstance(A.strip(base), dict) else None
        if bd:
            sub = subregion(A.short(o.get("fn")), o.get("targs") or [], args, bd[0], bd[1])
            if sub:
                return (sub[0] + sub[1], sub[2] * sub[3])
    if isinstance(o, dict) and o.get("dim"):
        return (0, o["dim"][0] * o["dim"][1])
    return None


def slices(rep, F, v, cls, rot_len):
    """(d) assertion slice == normalize() slice == asSO3 view (3-D) / complex accessors (2-D)."""
    base = cls + "Base"
    found = {}
    for f in F.functions:
        if f["kind"] != "inst" or f.get("body") is None:
            continue
        if f.get("cls") == base and f["short"] == "normalize" and own(f):
            for x in calls_in(f, "normalize"):
                _, obj, _ = A.call_parts(x)
                found["normalize"] = region_of(obj)
        if f.get("cls") == "manif::internal::AssignmentEvaluatorImpl" and f["short"] == "run_impl" and ("%s<manif::%s<double>>" % (base, v)) in str(f.get("clsargs")).replace(" ", ""):
            for x in A.walk(f):
                if A.is_call(x) and A.short(x.get("fn")) in ("norm", "squaredNorm"):
                    _, obj, _ = A.call_parts(x)
                    found["assert"] = region_of(obj)
        if f.get("cls") == base and f["short"] == "asSO3" and own(f):
            for x in A.walk(f):
                if x.get("k") == "BinaryOperator" and x.get("op") == "+":
                    k = S.const_of(x["ch"][1])
                    if k is not None:
                        found["asSO3"] = (k, 4)
        if f.get("cls") == base and f["short"] in ("real", "imag") and own(f):
            for x in A.walk(f):
                if x.get("k") in ("CXXOperatorCallExpr", "CXXMemberCallExpr") and (x.get("op") in ("()", "[]") or A.short(x.get("fn")) in ("x", "y", "z", "w")):
                    fn, obj, args = A.call_parts(x)
                    od = A.strip(obj).get("dim") if isinstance(A.strip(obj), dict) else None
                    if od:
                        nm = "operator" + x["op"] if x.get("op") in ("()", "[]") else A.short(fn)
                        sub = subregion(nm, [], args, od[0], od[1])
                        if sub:
                            found[f["short"]] = (sub[0] + sub[1], 1)
    need = ["normalize", "assert"] + (["asSO3"] if rot_len == 4 and v != "SO3" else []) + (["real", "imag"] if rot_len == 2 else [])
    for k in need:
        if found.get(k) is None:
            rep.broke("anchor vanished / not understood: rotation slice of %s::%s" % (cls, k))
            return 0
    ref = found["assert"]
    n = 0
    for k in need:
        n += 1
        if k in ("real", "imag"):
            idx = found[k][0]
            ok = ref[0] <= idx < ref[0] + ref[1]
            want = "inside the validated slice"
        else:
            ok = found[k] == ref
            want = "equal to the validated slice"
        rep.obligation(ok and ref[1] == rot_len, lambda k=k, want=want: C.Finding(
            "C13", "R-SLICE", "%s:%s" % (cls, k),
            "coefficient slice used by %s is %s, the constructor assertion validates %s (must be %s, length %d)" % (k, found[k], ref, want, rot_len), None, None))
    return n


def roundtrips(rep, F, v, cls):
    """exact: coefficient-level constructors followed by the accessors give back the supplied quantities."""
    sym = S.Sym(F)
    n = 0

    def ctor(pred):
        for f in F.functions:
            if f["kind"] == "inst" and f.get("ctor") and f.get("cls") == cls and "double" in str(f.get("clsargs")) and pred(f):
                return f
        return None

    def meth(name):
        return next((f for f in F.functions if f["kind"] == "inst" and f.get("cls") == cls + "Base" and f["short"] == name and own(f) and not f["params"] and f.get("const")), None)

    def vec(prefix, n_):
        m = S.Mat(n_, 1)
        m.cells = [S.Aff.sym("%s%d" % (prefix, i)) for i in range(n_)]
        return m

    def scal(name):
        return S.Aff.sym(name)

    plans = {
        "SO2": [(lambda f: len(f["params"]) == 2, lambda: [scal("re"), scal("im")], {"real": ["re"], "imag": ["im"]})],
        "SE2": [(lambda f: len(f["params"]) == 4, lambda: [scal("x"), scal("y"), scal("re"), scal("im")],
                 {"x": ["x"], "y": ["y"], "real": ["re"], "imag": ["im"], "translation": ["x", "y"]})],
        "SO3": [(lambda f: len(f["params"]) == 4, lambda: [scal("qx"), scal("qy"), scal("qz"), scal("qw")],
                 {"x": ["qx"], "y": ["qy"], "z": ["qz"], "w": ["qw"], "quat": ["qx", "qy", "qz", "qw"]})],
        "SE3": [(lambda f: len(f["params"]) == 2 and "Quaternion" in f["params"][1].get("cty", ""), lambda: [vec("t", 3), vec("q", 4)],
                 {"translation": ["t0", "t1", "t2"], "x": ["t0"], "y": ["t1"], "z": ["t2"], "quat": ["q0", "q1", "q2", "q3"]})],
        "SE_2_3": [(lambda f: len(f["params"]) == 3 and "Quaternion" in f["params"][1].get("cty", ""), lambda: [vec("t", 3), vec("q", 4), vec("v", 3)],
                    {"translation": ["t0", "t1", "t2"], "x": ["t0"], "y": ["t1"], "z": ["t2"], "quat": ["q0", "q1", "q2", "q3"],
                     "linearVelocity": ["v0", "v1", "v2"], "vx": ["v0"], "vy": ["v1"], "vz": ["v2"]})],
        "SGal3": [(lambda f: len(f["params"]) == 4 and "Quaternion" in f["params"][1].get("cty", ""), lambda: [vec("t", 3), vec("q", 4), vec("v", 3), scal("tm")],
                   {"translation": ["t0", "t1", "t2"], "x": ["t0"], "y": ["t1"], "z": ["t2"], "quat": ["q0", "q1", "q2", "q3"],
                    "linearVelocity": ["v0", "v1", "v2"], "vx": ["v0"], "vy": ["v1"], "vz": ["v2"], "t": ["tm"]})],
    }
    for pred, mkargs, accessors in plans.get(v, []):
        f = ctor(pred)
        if f is None:
            rep.broke("anchor vanished: coefficient-level constructor of %s" % cls)
            continue
        try:
            obj = sym.call_function(f, None, mkargs())
        except (S.Unsupported, S.Raised) as e:
            rep.broke("R-TABLE cannot interpret constructor %s: %s" % (f["name"], e))
            continue
        for acc, want in accessors.items():
            g = meth(acc)
            if g is None:
                rep.broke("anchor vanished: accessor %s::%s" % (cls, acc))
                continue
            try:
                r = sym.call_function(g, obj, [])
            except (S.Unsupported, S.Raised) as e:
                rep.broke("R-TABLE cannot interpret accessor %s: %s" % (g["name"], e))
                continue
            m = S.as_mat(r)
            got = [repr(x) for x in m.cells] if m is not None else [repr(S.scalarize(r))]
            n += 1
            rep.obligation(got == want, lambda acc=acc, got=got, want=want, g=g: C.Finding(
                "C13", "R-TABLE.roundtrip", "%s::%s" % (cls, acc),
                "after construction from (%s) the accessor %s() returns %s" % (", ".join(want), acc, got), g["file"], g["line"]))
    return n


def dims_witness(rep, work):
    lines = ["#include <manif/manif.h>", "namespace vt_c13 {"]
    obl = []
    for v in ("SO2", "SE2", "SO3", "SE3", "SE_2_3", "SGal3", "R1", "R3", "R7"):
        for Sx in ("double", "float"):
            G = W.group_cpp(v, Sx)
            # groups with translation-like parts: transform() and hat() are matrices on the same homogeneous space;
            # pure rotation groups: transform() is the rotation matrix padded with one homogeneous row/column
            pad = 1 if v in ("SO2", "SO3") else 0
            tag = "C13 homogeneous matrix has %d more row than the Lie algebra matrix and is square, Dim+1 (%s %s)" % (pad, v, Sx)
            lines.append('static_assert(%s::Transformation::RowsAtCompileTime == %s::Tangent::LieAlg::RowsAtCompileTime + %d && %s::Transformation::RowsAtCompileTime == %s::Transformation::ColsAtCompileTime, "%s");' % (G, G, pad, G, G, tag))
            obl.append(tag)
    lines.append("}")
    p = os.path.join(work, "c13_dims.cc")
    open(p, "w").write("\n".join(lines) + "\n")
    rc, err, cmd = W.compile_syntax_only(p, C.base_flags())
    bad = [l for l in err.splitlines() if "static_assert failed" in l or "static assertion failed" in l]
    other = [l for l in err.splitlines() if ": error:" in l and l not in bad]
    if rc != 0 and other:
        rep.broke("dims witness TU failed to compile: %s" % other[:2])
        return 0
    for l in bad:
        m = re.search(r'"(C13 [^"]*)"', l)
        rep.fail(C.Finding("C13", "E1-static_assert", m.group(1) if m else l[:150], "transform() and hat() matrices have different sizes: " + (m.group(1) if m else ""), None, None))
    rep.ok(len(obl) - len(bad))
    return len(obl)


def run(args):
    rep = C.Report("C13", "other", "constructor delegation funnel, assertion presence in both configurations, threshold / slice agreement, exact constructor-accessor round trips")
    work = C.scratch("c13")
    n_ctor = n_sl = n_rt = 0
    n_assert_dbg = n_assert_ndbg = 0
    for v, (cls, rot_len) in ROT_GROUPS.items():
        F = FX.get(v)
        n_ctor += funnel(rep, F, v, cls)
        n_sl += slices(rep, F, v, cls, rot_len)
        n_rt += roundtrips(rep, F, v, cls)
        # (b)/(c) debug configuration: a reachable raise<invalid_argument> guarded by `!( |norm - 1| < eps )`
        for f, raises, sl, op, eps in assertion_sites(F, False):
            if "double" not in str(f.get("clsargs")):
                continue
            n_assert_dbg += 1
            ok = raises and eps and op in ("!<", "!<=", ">=", ">") and sl is not None and sl[1] == rot_len
            rep.obligation(ok, lambda f=f, raises=raises, sl=sl, op=op, eps=eps: C.Finding(
                "C13", "R-ASSERT", f["name"], "with assertions enabled the acceptance test is not `|norm(rotation slice) - 1| < Constants::eps` raising invalid_argument otherwise (raises=%s, slice=%s, comparison=%s, eps=%s)" % (raises, sl, op, eps),
                f["file"], f["line"]))
        Fn = FX.get(v, ndebug=True)
        for f, raises, sl, op, eps in assertion_sites(Fn, True):
            n_assert_ndbg += 1
            rep.obligation(not raises, lambda f=f: C.Finding("C13", "R-ASSERT.ndebug", f["name"], "with NDEBUG the validation still raises: 'with NDEBUG nothing is rejected' is violated", f["file"], f["line"]))
        # no constructor reaches raise<invalid_argument> under NDEBUG
        for f in Fn.functions:
            if f["kind"] == "inst" and f.get("ctor") and f.get("cls") == cls:
                bad = [x for x in A.walk(f) if x.get("noret") and "invalid_argument" in str(x.get("targs"))]
                rep.obligation(not bad, lambda f=f: C.Finding("C13", "R-ASSERT.ndebug", f["name"], "constructor raises invalid_argument under NDEBUG", f["file"], f["line"]))
        # (f) cast re-normalises (3-D) / goes through the angle (2-D)
        for f in F.functions:
            if f["kind"] == "inst" and f.get("cls") == "manif::internal::CastEvaluatorImpl" and f["short"] == "run" and ("%sBase<manif::%s<double>>" % (v, v)) in str(f.get("clsargs")).replace(" ", "").replace("manif::" + v + "Base", v + "Base"):
                t = sexp(f.get("body"))
                ok = ("normalized" in t) if rot_len == 4 else ("angle" in t)
                rep.obligation(ok, lambda f=f, t=t: C.Finding("C13", "R-FWD.cast", f["name"], "cast<>() does not re-normalise the rotation after converting the scalar: %s" % t[:160], f["file"], f["line"]))
    n_dims = dims_witness(rep, work)
    rep.floor("constructors", n_ctor, 20)
    rep.floor("slice_obligations", n_sl, 14)
    rep.floor("roundtrip_accessors", n_rt, 35)
    rep.floor("assertion_sites_debug", n_assert_dbg, 8)
    rep.floor("assertion_sites_ndebug", n_assert_ndbg, 8)
    rep.floor("dims_static_asserts", n_dims, 18)
    rep.observations.append("the derived-class operator=(const Eigen::MatrixBase&) (macro MANIF_GROUP_ASSIGN_OP) hides LieGroupBase::operator=(MatrixBase) and does not validate; the property speaks of construction only")
    rep.rules = [
        "C13.a R-MPT.funnel: every constructor of SO2..SGal3 that takes rotation data from outside delegates (transitively) to the constructor that calls AssignmentEvaluator::run",
        "C13.a' R-MPT.funnel-last: in every constructor the validating step (AssignmentEvaluator::run, or the delegation to a constructor that has it) is the last write to the coefficient storage",
        "C13.b/c R-ASSERT: with assertions enabled each acceptance test (6 AssignmentEvaluatorImpl + quat setters) is `!( |norm(slice) - 1| < Constants::eps )` -> raise<invalid_argument>; with NDEBUG no such raise exists in the evaluators, setters or constructors (both configurations analysed from the same tree)",
        "C13.d R-SLICE: the slice the assertion measures == the slice normalize() rescales == the asSO3() view (3-D) / contains real(), imag() (2-D)",
        "C13.d R-TABLE.roundtrip (exact): constructing from coefficient-level quantities and reading translation()/quat()/x()...t()/linearVelocity() gives back exactly the supplied symbols",
        "C13.f R-FWD.cast: cast<>() of the 3-D groups ends in .normalized(); planar groups go through the angle",
        "E1 static_assert: Transformation and LieAlg are square matrices of the same size for every group (found and fixed: Rn)",
    ]
    rep.units = ["SO2..SGal3 double drivers, debug and NDEBUG configurations"]
    rep.trusted = ["clang AST", "Eigen Quaternion::coeffs() is its 4-vector", "engine/symeval.py transfer functions"]
    rep.assumptions = ["NOT decided: rotation() orthonormal, angle wrap-around, gimbal configurations, behaviour exactly at the threshold, precision of cast"]
    rep.checker_cmd = "manif-sa plugin (both -UNDEBUG and -DNDEBUG) + engine/check_c13.py"
    return rep.finish()
