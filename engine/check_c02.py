"""C02 - exp is the matrix exponential of hat, uniformly: structural necessary conditions at the
small-angle switch (R-JET, R-DIV) and delegation of the composite groups (DESIGN.md 3/C02).
NOT decided: equality with expm(hat) at generic angles, near/beyond pi, rounding, overflow."""
from . import astq as A
from . import common as C
from . import facts as FX
from . import rules_jet as RJ

VALUE_FUNCS = {("manif::SE2TangentBase", "exp"), ("manif::SO3TangentBase", "exp"), ("manif::SO3TangentBase", "ljac"),
               ("manif::SGal3TangentBase", "fillE")}
DELEGATION = {
    # composite exp must obtain the rotation from SO3Tangent::exp and the translation-like parts from SO3Tangent::ljac
    ("SE3", "manif::SE3TangentBase"): {"exp", "ljac"},
    ("SE_2_3", "manif::SE_2_3TangentBase"): {"exp", "ljac"},
    ("SGal3", "manif::SGal3TangentBase"): {"exp", "ljac", "fillE"},
}


def delegation(rep, prop, table, fname):
    n = 0
    for (variant, cls), need in table.items():
        F = FX.get(variant)
        f = next((g for g in F.functions if g["kind"] == "inst" and g.get("cls") == cls and g["short"] == fname and "Map" not in str(g.get("clsargs")) and g.get("body")), None)
        if f is None:
            rep.broke("anchor vanished: %s::%s" % (cls, fname))
            continue
        # in-repo call closure (generic-layer forwarders such as operator* -> compose are followed), depth <= 4
        called = set()
        seen, todo = set(), [(f, 0)]
        while todo:
            g, d = todo.pop()
            if g["id"] in seen or d > 4:
                continue
            seen.add(g["id"])
            for x in A.walk(g):
                if A.is_call(x) and x.get("inrepo"):
                    c = str(x.get("cls", ""))
                    if c in ("manif::SO3TangentBase", "manif::SO3Base") or x.get("fn", "").endswith("fillE"):
                        called.add(A.short(x.get("fn")))
                    elif c in ("manif::TangentBase", "manif::LieGroupBase") and "SO3" in str(x.get("clsargs")):
                        callee = F.by_id.get(x.get("fid"))
                        if callee is not None and callee.get("body"):
                            todo.append((callee, d + 1))
        n += 1
        rep.obligation(need <= called, lambda f=f, need=need, called=called: C.Finding(
            prop, "R-FWD.delegation", f["name"], "%s no longer obtains %s from the SO3 implementation (calls: %s): the shared small-angle switch does not cover it" % (fname, sorted(need - called), sorted(called)),
            f["file"], f["line"]))
    return n


def run(args):
    rep = C.Report("C02", "other", "jet comparison of the two arms of every small-angle switch feeding exp (R-JET), guarded division (R-DIV), delegation (R-FWD)")
    nf, no = RJ.check(rep, "C02", VALUE_FUNCS, obs="return", clause="value", entire=True)
    nf2, no2 = RJ.check(rep, "C02", {("manif::SGal3TangentBase", "fillE"), ("manif::SO3TangentBase", "ljac")}, obs="outputs", clause="value", entire=True)
    nd = delegation(rep, "C02", DELEGATION, "exp")
    from . import rules_series
    ns = rules_series.check(rep, "C02", {"exp"})
    rep.floor("series_cells", ns, 100)
    rep.floor("switch_functions", nf, 4)
    rep.floor("observables_compared", no + no2, 10)
    rep.floor("delegations", nd, 3)
    rep.rules = [
        "R-JET (C02.a): for every precision switch feeding the value of exp (SE2Tangent::exp, SO3Tangent::exp, SO3Tangent::ljac as V, SGal3Tangent::fillE) the closed-form arm has no negative-order term and differs from the small-angle arm by less than 1e-9 (double) / 1e-4 (float) at the switch-over |theta| = eps^(1/p)",
        "R-DIV (C02.b): on the small-angle side nothing is divided by a quantity vanishing with theta",
        "R-FWD.delegation (C02.c): SE3 / SE_2_3 / SGal3 exp obtain the rotation from SO3Tangent::exp and the translation-like parts from SO3Tangent::ljac (SGal3 additionally fillE), so the switches above cover them",
        "R-SERIES.exp (C02.d): for SO2, SE2, SO3, SE3, SE_2_3, SGal3 the closed-form code of exp, interpreted over truncated power series in the tangent (engine/jetnum.py, exact rational coefficients, all directions at once), gives T(exp t) = sum_{k<=5} hat(t)^k/k! + O(|t|^6) cell by cell, hat being the table proved by C07: exp IS the matrix exponential of hat through order 5 at the origin",
        "trusted summary: SO3(AngleAxis(a, n)) has coefficients (n sin(a/2), cos(a/2))",
    ]
    rep.units = ["SE2/SO3/SE3/SE_2_3/SGal3 double drivers"]
    rep.trusted = ["sympy series expansion", "Taylor remainders beyond 8 terms are negligible at |theta| <= 3.5e-3", "clang AST"]
    rep.assumptions = ["NOT decided: exp = expm(hat) beyond order 5 of the Taylor expansion at the origin (generic theta, near pi and beyond); rounding error; absence of overflow for |t| <= 1e6"]
    rep.checker_cmd = "manif-sa plugin + engine/jeteval.py + engine/rules_jet.py (R-JET) + engine/jetnum.py + engine/rules_series.py (R-SERIES)"
    return rep.finish()
