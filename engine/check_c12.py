"""C12 - generic in the scalar: preconditions for genericity (DESIGN.md 3/C12).

 a. genericity lint on the template patterns (AST): no concrete-scalar Eigen type, no std::-qualified math call
    on a dependent argument, no double/float local receiving a dependent (Scalar) expression
 b. the whole API witness matrix instantiates over a forward-mode dual scalar (vt::Dual<4>, Jet interface),
    for owning, Map and Map<const> operands
 c. the four optimiser functors (manifold / local parameterisation Plus+Minus, objective, constraint)
    instantiate over raw-pointer views for double and the dual scalar, and compute the documented
    expressions (term check)
NOT decided: that the dual parts equal the analytic Jacobians; float/double agreement (numerical)."""
import os
import re

from . import astq as A
from . import common as C
from . import facts as FX
from . import witness as W
from .api_table import ENTRIES
from .sexp import sexp

# entries outside the documented contract for an automatic-differentiation scalar: one line of reason each
DUAL_EXEMPT = {
    "g.Random": "Random draws use Eigen's random_impl / rand(): not a differentiable operation, ceres::Jet does not support it either",
    "g.setRandom": "same", "t.Random": "same", "t.setRandom": "same", "f.random_g": "same", "f.random_t": "same", "f.Random": "same",
    "g.cast_float": "cast<float>() of a dual scalar converts Dual -> float, which drops the derivative part by construction (no such conversion exists for ceres::Jet)",
    "t.cast_float": "same", "g.cast_double": "same (Dual -> double)", "t.cast_double": "same",
}
LINT_EXEMPT = {
    ("decasteljau", "t_01"): "curve parameter in [0,1], not group data (documented double)",
}
CONCRETE = re.compile(r"Eigen::(Matrix|Quaternion|AngleAxis|Transform|Array|DiagonalMatrix)<(double|float)\b")
FUNCTOR_SRC = r"""
#include <manif/ceres/manifold.h>
#include <manif/ceres/local_parametrization.h>
#include <manif/ceres/objective.h>
#include <manif/ceres/constraint.h>
namespace vt_functors {
template <class G, class T> void plus_minus(const T* x, const T* d, T* out, T* tout) {
  manif::CeresManifoldFunctor<G> m;
  bool a = m.Plus(x, d, out); bool b = m.Minus(x, x, tout);
  manif::CeresLocalParameterizationFunctor<G> lp;
  bool c = lp(x, d, out);
  (void)a; (void)b; (void)c;
}
template <class G, class T> void objective(const G& target, const T* x, T* r) {
  manif::CeresObjectiveFunctor<G> f(target, 2.0);
  bool a = f(x, r); (void)a;
  f.setTargetState(target); G t2 = f.getTargetState(); (void)t2; f.weight(3.0); double w = f.weight(); (void)w;
}
template <class G, class T> void constraint(const typename G::Tangent& meas, const T* p, const T* q, T* r) {
  manif::CeresConstraintFunctor<G> f(meas);
  bool a = f(p, q, r); (void)a;
  f.setMeasurement(meas); typename G::Tangent m2 = f.getMeasurement(); (void)m2;
}
"""


def lint(rep, fl):
    inc = C.REPO.rstrip("/") + "/include/manif/"
    seen = set()
    n = 0
    for F in fl:
        for f in F.functions:
            if f["kind"] != "pattern" or not f["file"].startswith(inc) or f.get("body") is None:
                continue
            if "/ceres/" in f["file"] and f["short"] in ("computeInformationMatrix", "CeresConstraintFunctor", "setMeasurementCovariance", "getMeasurementCovariance"):
                continue    # covariance of CeresConstraintFunctor is documented as double (Eigen::Matrix<double,...>)
            key = (f["file"], f["line"])
            if key in seen:
                continue
            seen.add(key)
            n += 1
            for x in A.walk(f):
                k = x.get("k")
                # (2) concrete-scalar Eigen type resolved inside a template
                fn = str(x.get("fn", "")) + " " + str(x.get("qn", ""))
                ty = F.ty(x) if x.get("ty") is not None else ""
                m = CONCRETE.search(fn) or (CONCRETE.search(ty) if k in ("VarDecl", "CXXConstructExpr", "CXXTemporaryObjectExpr", "CXXFunctionalCastExpr") else None)
                if m:
                    site = "%s@%s" % (f["name"], m.group(0))
                    rep.fail(C.Finding("C12", "R-GENERIC.type", site,
                                       "concrete-scalar Eigen type %s...> inside a function template whose scalar is a template parameter: float and dual-number instantiations cannot assign or multiply it" % m.group(0),
                                       f["file"], x.get("ln")))
                # (1) std::-qualified math call on a dependent argument (ADL cannot find ceres::sin / autodiff::sin)
                if k == "UnresolvedLookupExpr" and x.get("name") in ("sin", "cos", "tan", "sqrt", "abs", "atan2", "acos", "asin", "atan", "exp", "log", "pow", "floor", "fabs") \
                        and str(x.get("qual", "")).startswith("std::"):
                    rep.fail(C.Finding("C12", "R-GENERIC.adl", "%s@std::%s" % (f["name"], x["name"]),
                                       "std::%s is called qualified on a template-dependent argument: argument-dependent lookup cannot select the overload of a dual-number scalar" % x["name"],
                                       f["file"], x.get("ln")))
                # (3) double / float local receiving a dependent expression
                if k == "VarDecl" and F.ty(x) in ("double", "float", "const double", "const float") and x.get("init") is not None:
                    dep = any(y.get("k") in ("CXXDependentScopeMemberExpr", "UnresolvedLookupExpr", "DependentScopeDeclRefExpr", "CXXUnresolvedConstructExpr", "UnresolvedMemberExpr")
                              or "dependent type" in F.ty(y) for y in A.walk(x["init"]) if isinstance(y, dict) and (y.get("ty") is not None or y.get("k")))
                    groupdata = any(y.get("k") in ("CXXDependentScopeMemberExpr", "UnresolvedMemberExpr") and y.get("name") in ("coeffs", "norm", "squaredNorm", "angle", "x", "y", "z", "w", "real", "imag") for y in A.walk(x["init"]))
                    if dep and groupdata and (f["short"], x["name"]) not in LINT_EXEMPT:
                        rep.fail(C.Finding("C12", "R-GENERIC.local", "%s::%s" % (f["name"], x["name"]),
                                           "local of type %s receives an expression of the template scalar: the derivative part of a dual number is dropped" % F.ty(x),
                                           f["file"], x.get("ln")))
    rep.ok(n)
    return n


def dual_matrix(rep, work, variants):
    entries = [e for e in ENTRIES if e["id"] not in DUAL_EXEMPT]
    extra = '#include "dual.h"\n'
    post = "\nnamespace manif { namespace internal { template <int N> struct is_ad<vt::Dual<N>> : std::integral_constant<bool, true> {}; } }\n"
    # the prelude includes <manif/manif.h> after extra_includes: add the is_ad specialisation through a tiny header
    hdr = os.path.join(work, "dual_is_ad.h")
    open(hdr, "w").write('#pragma once\n#include "dual.h"\n#include <manif/manif.h>\n' + post)
    flags = C.base_flags() + ["-I" + work, "-include", hdr]
    cells, nb, nc = W.run_matrix(variants, ["vt::Dual<4>"], ["own", "map", "cmap"], ["derived"], work, flags, entries=entries,
                                 extra_includes=extra)
    bad = 0
    for c in cells:
        if c.ok:
            rep.ok()
        else:
            bad += 1
            d = c.diag or {}
            rep.fail(C.Finding("C12", "E1-dual", c.site, "API entry does not instantiate over a dual-number scalar: %s" % d.get("msg", "?")[:220],
                               d.get("file"), d.get("line"), {"body": c.entry["body"]}))
    for c in cells[:: max(1, len(cells) // 8)]:
        rep.sample({"cell": c.site, "program": c.entry["body"], "verdict": "accepted" if c.ok else "rejected"})
    rep.section("dual_matrix", cells=len(cells), rejected=bad, exempt_entries=DUAL_EXEMPT, variants=variants)
    return len(cells)


def functors(rep, work, variants):
    lines = ['#include "dual.h"', "#include <manif/manif.h>",
             "namespace manif { namespace internal { template <int N> struct is_ad<vt::Dual<N>> : std::integral_constant<bool, true> {}; } }",
             FUNCTOR_SRC]
    index = {}
    n = 0
    for v in variants:
        G = W.group_cpp(v, "double")
        for T in ("double", "vt::Dual<4>"):
            for fn, call in (("plus_minus", "plus_minus<%s, %s>(x, x, o, o);" % (G, T)),
                             ("objective", "objective<%s, %s>(*g, x, o);" % (G, T)),
                             ("constraint", "constraint<%s, %s>(*t, x, x, o);" % (G, T))):
                n += 1
                tag = "%s/%s/%s" % (fn, v, T)
                lines.append("void w%d(const %s* x, %s* o, const %s* g, const %s::Tangent* t) { %s }  // %s" % (n, T, T, G, G, call, tag))
                index[len("\n".join(lines).splitlines())] = tag
    lines.append("}")
    p = os.path.join(work, "c12_functors.cc")
    open(p, "w").write("\n".join(lines) + "\n")
    rc, err, cmd = W.compile_syntax_only(p, C.base_flags())
    bad, unattr = W.attribute_errors(err, p, {k: v for k, v in index.items()}) if rc != 0 else ({}, 0)
    if rc != 0 and not bad:
        rep.broke("functor witness TU failed to compile: " + err[:400])
        return 0
    for tag, d in bad.items():
        rep.fail(C.Finding("C12", "E1-functor", tag, "optimiser functor does not instantiate: %s" % d.get("msg", "")[:200], d.get("file"), d.get("line")))
    rep.ok(n - len(bad))
    return n


def functor_terms(rep):
    """(c) documented expressions, on the template patterns."""
    F = FX.get("SE3")
    inc = C.REPO.rstrip("/") + "/include/manif/ceres/"
    want = {
        ("manifold.h", "Plus"): r"\(= state_plus_delta \(\+ state delta\)\)",
        ("manifold.h", "Minus"): r"\(= y_minus_x \(- y x\)\)",
        ("local_parametrization.h", "operator()"): r"\(= state_plus_delta \(\+ state delta\)\)",
        ("objective.h", "operator()"): r"\(- \(cast:? ?[^)]*\)? ?state\)|\(- \(cast\) state\)",
        ("constraint.h", "operator()"): r"\(- \(cast\) \(ParenExpr:? ?\(- state_future state_past\)\)\)|\(- \(cast\) \(- state_future state_past\)\)",
    }
    n = 0
    for (hdr, name), pat in want.items():
        f = next((g for g in F.functions if g["kind"] == "pattern" and g["file"] == inc + hdr and g["short"] == name and g.get("body")), None)
        if f is None:
            rep.notes.append("functor pattern %s::%s not parsed by the SE3 driver (header not included there)" % (hdr, name))
            continue
        n += 1
        t = sexp(f["body"])
        t2 = re.sub(r"\(CXXDependentScopeMemberExpr:(\w+)[^()]*(\([^()]*\))*\)", r"(\1)", t)
        ok = re.search(pat, t2) is not None
        rep.obligation(ok, lambda f=f, t2=t2: C.Finding("C12", "R-FWD.functor", "%s::%s" % (hdr, name), "functor body is not the documented expression: %s" % t2[:200], f["file"], f["line"]))
    return n


def run(args):
    rep = C.Report("C12", "other", "genericity lint on template patterns + compile-witness matrix over a dual-number scalar + functor witnesses")
    work = C.scratch("c12")
    thorough = C.tier() == "thorough"
    variants = ["SO2", "SE2", "SO3", "SE3", "SE_2_3", "SGal3", "R3", "B1"]
    fl = [FX.get(v) for v in (variants if thorough else ["SE3", "SGal3", "SE2", "B1"])]
    n_lint = lint(rep, fl)
    n_cells = dual_matrix(rep, work, variants)
    n_fun = functors(rep, work, variants)
    # C12.d: the single-precision clause, for the values of exp / log: switch arms meet at the float switch-over (R-JET)
    # and the closed-form arms keep single-precision accuracy just above it (R-ROUND, engine/rounding.py; DESIGN 10.11)
    from . import rules_jet as RJ
    from .check_c02 import VALUE_FUNCS
    nf_f, no_f = RJ.check(rep, "C12", VALUE_FUNCS | {("manif::SE2Base", "log"), ("manif::SO3Base", "log")}, scalars=("float",), obs="return", clause="value")
    rep.floor("float_switch_functions", nf_f, 5)
    rep.floor("float_value_observables", no_f, 10)
    rep.floor("patterns_linted", n_lint, 600)
    rep.floor("dual_cells", n_cells, 3500)
    rep.floor("functor_witnesses", n_fun, 48)
    rep.rules = [
        "C12.a R-GENERIC (AST lint on template patterns): no concrete-scalar Eigen type (Matrix3d, Matrix<double,...>, Quaterniond ...) resolved inside a function template; no std::-qualified math call on a dependent argument; no double/float local receiving group data of the template scalar",
        "C12.b E1-dual: every documented API entry (minus the Random family and Dual->float casts, exempt with reason) instantiates for vt::Dual<4> - a 60-line forward-mode dual with the ceres::Jet interface - for owning, Map and Map<const> operands of 8 group variants",
        "C12.c E1-functor: CeresManifoldFunctor::Plus/Minus, CeresLocalParameterizationFunctor, CeresObjectiveFunctor, CeresConstraintFunctor (and their setters/getters) instantiate through raw-pointer views for double and the dual scalar",
    ]
    rep.rules.append("C12.d R-JET / R-ROUND for float: for the value observables of SE2 / SO3 exp and log (and SO3 ljac, SGal3 fillE, which carry the translation-like parts of the composite groups) the two arms of every precision switch meet at the single-precision switch-over within 1e-4, and the first-order rounding-error bound of the closed-form arm in float, worst over a ladder of rotation magnitudes from the switch-over (mixed worlds included), stays below 1e-4 relative to max(1, |value|)")
    rep.units = ["witness TUs with S = vt::Dual<4>", "functor TU"] + [F.tag for F in fl]
    rep.trusted = ["clang front end", "vt::Dual models the interface of ceres::Jet / autodiff::dual (neither library is installed)"]
    rep.assumptions = ["NOT decided: dual parts reproduce the analytic Jacobians; float agrees with double to single precision beyond the first-order rounding model of C12.d (Jacobians in float, composite-group specific code)"]
    rep.checker_cmd = "clang++ -fsyntax-only witness TUs (-include dual.h) ; manif-sa plugin patterns + engine/check_c12.py"
    return rep.finish()
