"""C14 - the const API is safe to use concurrently (effect analysis, DESIGN.md 3/C14)."""
from . import common as C
from . import facts as FX
from . import rules_effect as RE

# static helpers the property names must exist and own a function-local static (anchor check)
ANCHOR_STATICS = [
    ("manif::LieGroupBase", "setIdentity"), ("manif::LieGroupBase", "Identity"), ("manif::TangentBase", "Zero"),
    ("manif::SO2Base", "adj"), ("manif::SO2TangentBase", "rjac"), ("manif::SO2TangentBase", "ljac"),
    ("manif::SO2TangentBase", "smallAdj"), ("manif::RnBase", "adj"), ("manif::RnTangentBase", "rjac"),
    ("manif::RnTangentBase", "ljac"), ("manif::RnTangentBase", "smallAdj"),
]


def run(args):
    rep = C.Report("C14", "proof", "effect analysis over the instantiated const-API call graph (R-EFFECT)")
    kinds = ["own", "map", "cmap"]
    specs = [dict(variant=v, kind=k) for v in FX.variants() for k in kinds]
    if C.tier() == "thorough":
        specs += [dict(variant=v, kind="own", scalar="float") for v in FX.variants()]
        specs += [dict(variant=v, kind="own", ndebug=True) for v in FX.variants()]
    fl = FX.get_many(specs)
    res = RE.check(rep, "C14", fl)
    # anchors: the lazily initialised statics named by the property are still there (else the
    # inventory below would be vacuous)
    have = set()
    pats = 0
    for F in fl:
        for f in F.functions:
            if f["kind"] == "pattern":
                continue
            for n in __import__("engine.astq", fromlist=["walk"]).walk(f):
                if n.get("k") == "VarDecl" and n.get("static"):
                    have.add((f.get("cls"), f["short"]))
    for a in ANCHOR_STATICS:
        if a not in have:
            rep.notes.append("anchor %s::%s no longer owns a function-local static (inventory updated from source)" % a)
    rep.floor("static_local_sites", len(res["static_sites"]), 30)
    rep.floor("classes_fields_examined", res["fields"], 30)
    rep.floor("fact_files", len(fl), 24)
    rep.rules = [
        "R-EFFECT(a): no mutable member, no const_cast, no explicit cast dropping const in any instantiated manif function",
        "R-EFFECT(b): every function-local static and every namespace-scope/static-member variable of manif is const/constexpr",
        "R-EFFECT(c): build files do not pass -fno-threadsafe-statics",
        "R-EFFECT(d): no static-local initialiser reaches its own enclosing function in the resolved call graph",
        "R-EFFECT(e): the process-global PRNG is reachable only from the Random family (who-may-call)",
        "R-EFFECT(f): no store whose root is a static-storage variable",
        "together with C++ const-correctness: every non-mutating API entry reads only its arguments and immutable, guard-initialised statics and writes only locals, its by-value result and caller-supplied outputs => no data race, same values as single-threaded",
    ]
    rep.units = [F.tag for F in fl]
    rep.trusted = ["clang 14 AST + template instantiation", "C++11 [stmt.dcl]/4 thread-safe initialisation of local statics as implemented by the compiler",
                   "Eigen fixed-size kernels and libm (sin cos sqrt atan2 acos) are re-entrant", "tl::optional"]
    rep.assumptions = ["threads share operands only through const access paths and own their outputs (the property's premise)"]
    rep.checker_cmd = "clang++ -fsyntax-only -fplugin=build/manif_sa.so (mode=funcs) over the all-API driver TUs; engine/rules_effect.py"
    return rep.finish()
