"""R-JET rule instances: every small-angle switch of the library (DESIGN.md C02.a, C03.a/b, C05.e, C06.c).

For each instantiated function that compares a power of the rotation magnitude with
Constants<Scalar>::eps, evaluate the body in the two worlds (jeteval) and require, for every
observable that differs between them,
   (i)  no negative th-order term on the closed-form side (removable singularity removed),
   (ii) |closed - small| at th_s = eps^(1/p) below the tolerance of the clause
        (values 1e-9 / Jacobians 1e-7 for double; 1e-4 / 1e-3 for float),
   (iii) for closed-form arms that branch on the sign of another quantity, (ii) in every sign case.
"""
import itertools

import sympy as sp

from . import astq as A
from . import common as C
from . import facts as FX
from . import jeteval as J
from .sexp import sexp

EPS_VAL = {"double": 100 * 2.0 ** -52, "float": 100 * 2.0 ** -23}
TOL = {"double": {"value": 1e-9, "jac": 1e-7}, "float": {"value": 1e-4, "jac": 1e-3}}

# hand-confirmed instances on the pinned tree (class, function): clause kind of its observables
KNOWN = {
    ("manif::SE2TangentBase", "exp"): "exp", ("manif::SE2TangentBase", "ljac"): "jac",
    ("manif::SE2TangentBase", "rjacinv"): "jac", ("manif::SE2TangentBase", "ljacinv"): "jac",
    ("manif::SE2Base", "log"): "log",
    ("manif::SO3TangentBase", "exp"): "exp", ("manif::SO3TangentBase", "ljac"): "jac", ("manif::SO3TangentBase", "ljacinv"): "jac",
    ("manif::SO3Base", "log"): "log",
    ("manif::SE3TangentBase", "fillQ"): "jac",
    ("manif::SGal3TangentBase", "fillE"): "value", ("manif::SGal3TangentBase", "ljac"): "jac",
}


def is_switch_function(f):
    for n in A.walk(f):
        if n.get("k") == "IfStmt":
            c = n.get("cond")
            txt = sexp(c)
            if ("::eps" in txt) and "abs" not in txt and "Abs" not in txt:
                return True
    return False


def make_seeds(f, wsign=1):
    cls = f.get("cls") or ""
    short = f["short"]
    group_log = cls.endswith("Base") and not cls.endswith("TangentBase") and short == "log"

    def angular(txt):
        return any(t in txt for t in ("ang", "tail<3>", "so3", "asSO3", "theta_vec")) or (cls == "manif::SO3TangentBase" and "coeffs" in txt)

    def seeds(n, je):
        k = n.get("k")
        if k in A.CALL_KINDS:
            fn, obj, args = A.call_parts(n)
            name = A.short(fn) if fn else ""
            ncls = str(n.get("cls", ""))
            otxt = sexp(obj) if obj is not None else ""
            if name == "squaredNorm":
                if group_log and cls == "manif::SO3Base":
                    return sp.sin(J.TH) ** 2          # |v|^2 of a unit quaternion with half-angle th
                if group_log:
                    return None
                return J.TH ** 2
            if name == "norm" and angular(otxt):
                return J.TH
            if name == "angle" and n.get("inrepo"):
                return J.TH
            if cls == "manif::SE2Base" and short == "log" and n.get("k") == "CXXOperatorCallExpr" and n.get("op") in ("[]", "()"):
                idx = A.strip(args[0]) if args else None
                iv = idx.get("iv", idx.get("v")) if isinstance(idx, dict) else None
                if iv == 2:
                    return sp.cos(J.TH)
                if iv == 3:
                    return sp.sin(J.TH)
            if name == "w" and cls == "manif::SO3Base":
                return wsign * sp.cos(J.TH)
            if name == "hat" and n.get("inrepo"):
                return je.mat_symbol("K[W]", 1)
            if name == "skew" and n.get("inrepo"):
                a = sexp(args[0]) if args else ""
                if angular(a) or "tail" in a:
                    return je.mat_symbol("K[W]", 1)
                return je.mat_symbol("K[%s]" % ("V2" if "lin2" in a else "V"), 0)
            if name in ("x", "y", "z") and n.get("inrepo") and cls == "manif::SO3TangentBase":
                return J.TH * sp.Symbol("n_" + name, real=True)
            if name in ("x", "y", "z", "t", "vx", "vy", "vz") and n.get("inrepo"):
                return sp.Symbol("p[%s]" % name, real=True)
            if name == "normalized":
                return ("unit",)
            if name in ("lin", "lin2", "ang", "coeffs", "head", "tail", "segment") and (n.get("inrepo") or ncls.startswith("Eigen::")):
                order = 1 if angular(sexp(n)) and name != "lin" and name != "lin2" else 0
                return je.mat_symbol("v[%s]" % sexp(n)[:40], order)
            if n.get("inrepo") and name in ("ljac", "rjac", "ljacinv", "rjacinv", "rjac", "adj", "rotation", "asSO3", "exp", "log", "inverse", "compose", "quat", "translation", "fillQ", "fillE"):
                return je.mat_symbol("F[%s]" % sexp(n)[:50], 0)
        if k == "DeclRefExpr":
            if n.get("name") in ("eps",) or str(n.get("qn", "")).endswith("::eps"):
                return J.EPS
            if n.get("name") in ("eps_sqrt",) or str(n.get("qn", "")).endswith("::eps_sqrt"):
                return sp.sqrt(J.EPS)
            # fillQ(Q, c): c is the 6-vector; Q / E outputs are targets
        return None
    return seeds


def quaternion_of(v):
    """Trusted summary: SO3(AngleAxis(a, n)) has coefficients (n sin(a/2), cos(a/2));  SO3(x,y,z,w) is itself."""
    if isinstance(v, tuple) and v[0] == "ctor":
        args = v[2]
        if len(args) == 1 and isinstance(args[0], tuple) and args[0][0] == "ctor" and args[0][1].startswith("AngleAxis"):
            a = args[0][2][0]
            n = [sp.Symbol("n_x", real=True), sp.Symbol("n_y", real=True), sp.Symbol("n_z", real=True)]
            return [n[0] * sp.sin(a / 2), n[1] * sp.sin(a / 2), n[2] * sp.sin(a / 2), sp.cos(a / 2)]
        if all(isinstance(a, sp.Expr) for a in args):
            return list(args)
        if len(args) == 1 and isinstance(args[0], tuple):
            return quaternion_of(args[0])
    return None


def norm_key(k):
    import re
    k = re.sub(r"\(op-> (\w+)\)", r"*\1", k)
    k = re.sub(r"\(op\* (\w+)\)", r"*\1", k)
    return k


def run_world(F, f, small, signs, wsign, theta=None, eps_val=None):
    je = J.JetEval(F, f, J.World(small, signs, theta=theta, eps_val=eps_val), make_seeds(f, wsign))
    ret = je.run()
    return je, ret


def atan2_rewrite(e):
    """atan2(y, x) with x -> positive constant as th -> 0 is atan(y/x); with x -> negative constant it is atan(y/x) +- pi."""
    if not isinstance(e, sp.Expr):
        return e
    f = sp.Function("atan2")

    def rw(y, x):
        x0 = sp.limit(x, J.TH, 0)
        if x0.is_positive:
            return sp.atan(y / x)
        if x0.is_negative:
            y0 = sp.series(y, J.TH, 0, 2).removeO()
            return sp.atan(y / x) + (sp.pi if sp.limit(y0 / J.TH, J.TH, 0) >= 0 else -sp.pi)
        return f(y, x)
    return e.replace(f, rw)


def pos(e):
    """th is in (0, pi): |sin th| = sin th etc."""
    if not isinstance(e, sp.Expr):
        return e
    def drop(a):
        try:
            l = sp.limit(a / J.TH ** sp.series(a, J.TH, 0, 4).removeO().as_leading_term(J.TH).as_coeff_exponent(J.TH)[1], J.TH, 0)
            return a if l > 0 else -a
        except Exception:   # noqa
            return sp.Abs(a)
    return e.replace(sp.Abs, drop)


def far_switch(rep, prop, F, f, scalar, kind, site0, q, q_small_when, thr, key, wsign):
    """Two-sided comparison around theta0 = smallest positive zero of q."""
    try:
        roots = [r for r in sp.solve(q, J.TH) if r.is_real and r > 0]
        th0 = min(roots)
    except Exception as e:   # noqa
        rep.broke("R-JET: cannot locate the zero of switch quantity %s in %s" % (q, site0))
        return 0
    d = sp.Symbol("d", positive=True)
    try:
        qd = sp.series(q.subs(J.TH, th0 - d), d, 0, 6).removeO()
        c, p = sp.expand(qd).as_leading_term(d).as_coeff_exponent(d)
        thr_val = float(thr.subs(J.EPS, EPS_VAL[scalar]))
        d_s = (thr_val / abs(float(c))) ** (1.0 / float(p))
    except Exception:   # noqa
        rep.broke("R-JET: switch quantity %s is not a power of (theta0 - theta) in %s" % (q, site0))
        return 0
    # side A: condition `q < thr`-side taken, side B: the other; small-angle switches on their closed-form side
    ja, ra = run_world(F, f, False, {key: q_small_when}, wsign)
    jb, rb = run_world(F, f, False, {key: (not q_small_when)}, wsign)
    pairs = []
    if isinstance(ra, sp.Expr) and isinstance(rb, sp.Expr):
        pairs.append(("return", ra, rb))
    ta = {norm_key(k): v for k, v in ja.targets.items()}
    tb = {norm_key(k): v for k, v in jb.targets.items()}
    for k in sorted(set(ta) & set(tb)):
        if isinstance(ta[k], sp.Expr) and isinstance(tb[k], sp.Expr):
            pairs.append((k[:60], ta[k], tb[k]))
    n = 0
    clause = CLAUSE_OVERRIDE or ("value" if kind in ("exp", "log", "value") else "jac")
    for what, a, b in pairs:
        if a == b:
            continue
        n += 1
        diff = sp.expand(pos(a) - pos(b))
        # every matrix symbol is bounded by |theta| <= 4 near theta0; expand coefficients in d = theta0 - theta
        total = 0.0
        lead = None
        groups = {}
        for term in sp.Add.make_args(diff):
            cpart, ncpart = term.args_cnc()
            groups[tuple(ncpart)] = groups.get(tuple(ncpart), 0) + sp.Mul(*cpart)
        try:
            for ncpart, coeff in groups.items():
                scale = 1.0
                for x in ncpart:
                    b_, e_ = x.as_base_exp()
                    scale *= 4.0 ** (int(e_) * (1 if ja.orders.get(str(b_), 0) or jb.orders.get(str(b_), 0) else 0))
                ser = sp.series(sp.together(coeff).subs(J.TH, th0 - d), d, 0, 6).removeO()
                for t2 in sp.Add.make_args(sp.expand(ser)):
                    if t2 == 0:
                        continue
                    c2, p2 = t2.as_coeff_exponent(d)
                    cabs = sum(abs(float(a2.as_coeff_Mul()[0])) if a2.as_coeff_Mul()[0].is_number else 1.0 for a2 in sp.Add.make_args(sp.expand(c2)))
                    total += scale * cabs * d_s ** float(p2)
                    if lead is None or float(p2) < lead[0]:
                        lead = (float(p2), "%s*d^%s" % (c2, p2))
        except Exception as e:   # noqa
            rep.broke("R-JET cannot expand %s:%s around theta = %s: %s" % (site0, what, th0, e))
            continue
        tol = TOL[scalar][clause]
        site = "%s:%s [switch at theta=%s]:%s" % (site0, what, th0, scalar)
        rep.obligation(total <= tol, lambda site=site, total=total, lead=lead, tol=tol, d_s=d_s, th0=th0: C.Finding(
            prop, "R-JET.arms", site,
            "the two sides of the switch on %s differ by up to %.2e at |theta| = %s - %.3g (leading term %s); tolerance %.0e" % (q, total, th0, d_s, lead[1] if lead else "0", tol),
            f["file"], f["line"]))
        rep.sample({"switch": site, "d_s": d_s, "bound": total, "tolerance": tol}, limit=30)
    return n


def half_turn(rep, prop):
    """R-JET.halfturn: SO3Base::log at the exact half turn - quaternion (v, 0), |v| = 1, i.e. half-angle th = pi/2 with every
    comparison decided by exact substitution - returns +-pi * v (a tangent of norm pi), for both signs of the (zero) scalar part."""
    F = FX.get("SO3")
    f = next((g for g in F.functions if g["kind"] == "inst" and g.get("cls") == "manif::SO3Base" and g["short"] == "log"
              and "Map" not in str(g.get("clsargs")) and "double" in str(g.get("clsargs")) and g.get("body") is not None), None)
    if f is None:
        rep.broke("anchor vanished: SO3Base::log")
        return 0
    n = 0
    for wsign in (1, -1):
        site = "SO3Base::log:half-turn[w=%s0]" % ("+" if wsign > 0 else "-")
        try:
            je = J.JetEval(F, f, J.World(False, {}, at=sp.pi / 2), make_seeds(f, wsign))
            ret = je.run()
        except (J.Unknown, J.NeedSign) as e:
            rep.broke("R-JET.halfturn cannot evaluate %s: %s" % (site, e))
            continue
        exprs = []

        def collect(x):
            if isinstance(x, sp.Expr):
                exprs.append(x)
            elif isinstance(x, (tuple, list)):
                for y in x:
                    collect(y)
        collect(ret)
        if len(exprs) != 1:
            rep.broke("R-JET.halfturn: unexpected shape of the value returned by SO3Base::log")
            continue
        e = exprs[0].subs(J.TH, sp.pi / 2).replace(sp.Function("atan2"), lambda y, x: sp.atan2(y, x))
        cpart, ncpart = e.args_cnc()
        coef = sp.simplify(sp.Mul(*cpart))
        n += 1
        ok = len(ncpart) == 1 and sp.simplify(coef ** 2 - sp.pi ** 2) == 0      # +pi*v and -pi*v are the same half turn
        rep.obligation(ok, lambda site=site, coef=coef, e=e: C.Finding(
            prop, "R-JET.halfturn", site,
            "at the exact half turn (unit quaternion with scalar part 0) log returns %s instead of +-pi * v: exp(log X) is not X" % str(e)[:120],
            f["file"], f["line"]))
    return n


def analyse_function(rep, prop, F, f, scalar, kind):
    """Returns number of compared observables."""
    site0 = "%s::%s" % ((f.get("cls") or "").replace("manif::", ""), f["short"])
    n_obs = 0
    # the two-world evaluation assumes the function is pure (R-EFFECT): a body that casts constness away may
    # rewrite the very coefficients it reads, which this domain does not model -> inconclusive, never a verdict
    if any(x.get("constcast") or x.get("dropsconst") for x in A.walk(f)):
        rep.broke("R-JET: %s casts constness away (see R-EFFECT); the jet comparison does not model writes to the receiver" % site0)
        return 0
    # sign cases: discover lazily
    sign_keys = []
    for _ in range(3):
        try:
            combos = list(itertools.product([False, True], repeat=len(sign_keys)))
            results = []
            for combo in combos:
                signs = dict(zip(sign_keys, combo))
                for wsign in ((1, -1) if (f.get("cls") == "manif::SO3Base" and f["short"] == "log") else (1,)):
                    # the sign condition `cos_angle < 0` is decided by the hemisphere, not free
                    if sign_keys and f.get("cls") == "manif::SO3Base":
                        if any((wsign < 0) != v for v in signs.values()):
                            continue
                    jl, rl = run_world(F, f, False, signs, wsign)
                    js, rs = run_world(F, f, True, signs, wsign)
                    results.append((signs, wsign, jl, rl, js, rs))
            break
        except J.NeedSign as e:
            if e.key in sign_keys:
                raise
            sign_keys.append(e.key)
    else:
        rep.broke("R-JET: too many sign conditions in %s" % site0)
        return 0
    for signs, wsign, jl, rl, js, rs in results:
        case = ""
        if sign_keys or wsign < 0:
            case = " [case %s%s]" % ("w<0" if wsign < 0 else "w>0", "".join(" %s=%s" % (k[:30], v) for k, v in signs.items()))
        switches = jl.switches or js.switches
        if not switches:
            continue
        # switch-over magnitude(s)
        ths = []
        for ln, q, _small, thr in switches:
            try:
                lead = sp.series(q, J.TH, 0, 8).removeO()
                c, p = sp.expand(lead).as_leading_term(J.TH).as_coeff_exponent(J.TH)
                thr_val = float(thr.subs(J.EPS, EPS_VAL[scalar]))
                ths.append(float((thr_val / abs(float(c))) ** (1.0 / float(p))))
            except Exception:   # noqa
                rep.broke("R-JET: switch quantity %s at %s:%s is not a power of the rotation magnitude" % (q, site0, ln))
                return n_obs
        th_s = max(ths)
        # R-ROUND in the mixed worlds between two switch-overs of the same function: for theta in [t_i, t_(i+1)) the
        # switches with switch-over <= t_i are on their closed-form side, the others on their small-angle side
        cuts = sorted(set(float("%.6g" % t) for t in ths))
        for ci in range(len(cuts) - 1):
            lo, hi = cuts[ci], cuts[ci + 1]
            if hi <= lo * 1.001:
                continue
            try:
                jm, rm = run_world(F, f, False, signs, wsign, theta=lo * 1.001, eps_val=EPS_VAL[scalar])
            except (J.Unknown, J.NeedSign) as e:
                rep.observations.append("R-ROUND: mixed world [%g, %g) of %s not interpreted (%s)" % (lo, hi, site0, e))
                continue
            mixed = []
            qm = quaternion_of(rm)
            if qm is not None:
                mixed += [("return[%d]" % i, a) for i, a in enumerate(qm)]
            elif isinstance(rm, tuple) and rm and rm[0] == "ctor":
                mixed += [("return[%d]" % i, a) for i, a in enumerate(rm[2]) if isinstance(a, sp.Expr)]
            elif isinstance(rm, sp.Expr):
                mixed.append(("return", rm))
            mixed += [(norm_key(k)[:60], v) for k, v in sorted(jm.targets.items()) if isinstance(v, sp.Expr)]
            om = dict(jm.orders)
            for what, a in mixed:
                if OBS_FILTER == "return" and not what.startswith("return"):
                    continue
                if OBS_FILTER == "outputs" and what.startswith("return"):
                    continue
                clause = "value" if (kind in ("exp", "log", "value") and what.startswith("return")) or kind == "value" else "jac"
                n_obs += round_obligation(rep, prop, f, "%s:%s%s:mixed[%.3g,%.3g)" % (site0, what, case, lo, hi), pos(a), om, lo,
                                          scalar, CLAUSE_OVERRIDE or clause, th_max=hi)
        # R-DIV (closed-form side of an entire function): a denominator may vanish only at theta = 0
        if ENTIRE:
            for den in jl.divisions:
                if not isinstance(den, sp.Expr) or not den.has(J.TH):
                    continue
                d2 = pos(den)
                try:
                    p_ = sp.series(d2, J.TH, 0, 8).removeO().as_leading_term(J.TH).as_coeff_exponent(J.TH)[1]
                    mono = sp.simplify(d2 / J.TH ** p_)
                    ok = not mono.has(J.TH)
                except Exception:   # noqa
                    ok = False
                n_obs += 1
                rep.obligation(ok, lambda den=den: C.Finding(
                    prop, "R-DIV.closed", "%s%s:%s" % (site0, case, str(den)[:60]),
                    "the closed form divides by %s, which vanishes at a non-zero rotation magnitude (e.g. theta = pi): non-finite result for a finite input, although exp is entire" % den,
                    f["file"], f["line"]))
        # switches located away from theta = 0 (guards near pi ...): compare the two sides around the switch's own zero
        for ln, q, q_small_when, thr, key in (jl.far_switches or []):
            n_obs += far_switch(rep, prop, F, f, scalar, kind, site0, q, q_small_when, thr, key, wsign)
        # R-DIV: on the small-angle side nothing may be divided by a quantity that vanishes with the rotation
        for den in js.divisions:
            if not isinstance(den, sp.Expr) or not den.has(J.TH):
                continue
            try:
                lt = sp.series(pos(den), J.TH, 0, 6).removeO()
                p_ = sp.expand(lt).as_leading_term(J.TH).as_coeff_exponent(J.TH)[1] if lt != 0 else sp.oo
            except Exception:   # noqa
                continue
            n_obs += 1
            rep.obligation(not (p_ > 0), lambda den=den, p_=p_: C.Finding(
                prop, "R-DIV", "%s%s:%s" % (site0, case, str(den)[:60]),
                "on the small-angle side of the switch a value is divided by %s, which vanishes like theta^%s (0/0 or overflow for tiny or zero rotations)" % (den, p_),
                f["file"], f["line"]))
        orders = dict(jl.orders)
        orders.update(js.orders)
        pairs = []
        # returned values
        ql, qs = quaternion_of(rl), quaternion_of(rs)
        if ql is not None and qs is not None and len(ql) == len(qs):
            for i, (a, b) in enumerate(zip(ql, qs)):
                pairs.append(("return[%d]" % i, a, b, "value" if kind in ("exp", "log", "value") else "jac"))
        elif isinstance(rl, tuple) and isinstance(rs, tuple) and rl[0] == rs[0] == "ctor" and len(rl[2]) == len(rs[2]):
            for i, (a, b) in enumerate(zip(rl[2], rs[2])):
                if isinstance(a, sp.Expr) and isinstance(b, sp.Expr):
                    pairs.append(("return[%d]" % i, a, b, "value" if kind in ("exp", "log", "value") else "jac"))
        elif isinstance(rl, sp.Expr) and isinstance(rs, sp.Expr):
            pairs.append(("return", rl, rs, "value" if kind in ("exp", "log", "value") else "jac"))
        elif (rl is None) != (rs is None) and not (jl.targets or js.targets):
            rep.broke("R-JET: %s returns in only one world" % site0)
        # matrix / cell targets
        tl = {norm_key(k): v for k, v in jl.targets.items()}
        ts = {norm_key(k): v for k, v in js.targets.items()}
        for k in sorted(set(tl) | set(ts)):
            a, b = tl.get(k), ts.get(k)
            if a is None or b is None:
                continue   # written in one world only: scratch of that arm (its consumers are compared)
            if isinstance(a, sp.Expr) and isinstance(b, sp.Expr):
                is_out = k.startswith("*") or "*J" in k
                pairs.append((k[:60], a, b, "jac" if (kind != "value") else "value"))
        # scalars assigned on both sides are *not* obligations (they only matter through the observables they feed,
        # where they are multiplied by monomials of known th-order); a disagreement of their limits is recorded
        scalars = []
        for d in sorted(set(jl.env) & set(js.env)):
            a, b = jl.env[d], js.env[d]
            if isinstance(a, sp.Expr) and isinstance(b, sp.Expr) and a != b and not (a.atoms(sp.Symbol) - {J.TH}) and not a.has(sp.Function("atan2")):
                name = next((x.get("name") for x in A.walk(f) if x.get("k") == "VarDecl" and x.get("decl") == d), "v%s" % d)
                scalars.append((name, a, b))
        for name, a, b in scalars:
            try:
                bnd, lead, _ = J.term_bound(sp.expand(pos(a) - pos(b)), orders, th_s)
                if bnd > 1e-6:
                    rep.observations.append("%s%s: Taylor constant of scalar '%s' differs from the limit of its closed form (leading term %s); harmless only through the th-order of the monomials it multiplies" % (site0, case, name, lead))
            except Exception:   # noqa
                pass
        for what, a, b, clause in pairs:
            if OBS_FILTER == "return" and not what.startswith("return"):
                continue
            if OBS_FILTER == "outputs" and what.startswith("return"):
                continue
            a, b = pos(a), pos(b)
            if a == b:
                continue
            n_obs += round_obligation(rep, prop, f, "%s:%s%s" % (site0, what, case), a, orders, th_s, scalar, CLAUSE_OVERRIDE or clause)
            n_obs += 1
            site = "%s:%s%s:%s" % (site0, what, case, scalar)
            try:
                a2, b2 = atan2_rewrite(a), atan2_rewrite(b)
                bound_closed, lead_closed, neg = J.term_bound(a2, orders, th_s)
                diff = sp.expand(a2 - b2)
                bound, lead, _ = J.term_bound(diff, orders, th_s)
            except J.Unknown as e:
                rep.broke("R-JET cannot expand %s: %s" % (site, e))
                continue
            tol = TOL[scalar][CLAUSE_OVERRIDE or clause]
            rep.obligation(not neg, lambda site=site, lead_closed=lead_closed: C.Finding(
                prop, "R-JET.singular", site, "closed-form arm has a negative-order term (%s): non-finite / unbounded result just above the switch-over" % lead_closed,
                f["file"], f["line"]))
            rep.obligation(bound <= tol, lambda site=site, bound=bound, lead=lead, tol=tol, th_s=th_s: C.Finding(
                prop, "R-JET.arms", site,
                "the small-angle arm and the closed form differ by up to %.2e at the switch-over |theta| = %.3g (leading term %s); tolerance %.0e" % (bound, th_s, lead, tol),
                f["file"], f["line"]))
            rep.sample({"switch": site, "theta_s": th_s, "bound": bound, "leading_term": lead, "tolerance": tol}, limit=30)
    return n_obs


ROUND_TOL = {"double": 1e-6}     # the accuracy the property statements name (C02, C05, C06: relative error about 1e-6 in double)


def round_obligation(rep, prop, f, site, a, orders, th_s, scalar, clause="jac", th_max=0.1):
    """R-ROUND: first-order rounding-error bound of the closed-form arm at its switch-over (engine/rounding.py)."""
    from . import rounding as R
    if scalar == "float":
        # C12: "single-precision instantiations agree with double ones to single-precision accuracy" - armed for the
        # values of exp / log only, with a wide margin (1e-4 is about 1700 unit round-offs)
        if clause != "value":
            return 0
        site += ":float"
    round_tol = {"double": ROUND_TOL["double"], "float": 1e-4}[scalar]
    try:
        # the flush-to-zero regime makes the bound non-monotone in theta: take the worst over a ladder of rotation
        # magnitudes from the switch-over up to 0.1 (half-decade steps)
        def ladder(step):
            val, err, worst, th_at = None, -1.0, None, th_s
            t = th_s
            while t <= th_max or val is None:
                v_, e_, w_ = R.bound(a, J.TH, t, orders, scalar)
                if e_ / max(1.0, abs(v_)) > err / max(1.0, abs(val or 0.0)):
                    val, err, worst, th_at = v_, e_, w_, t
                t *= 10 ** step
            return val, err, worst, th_at
        val, err, worst, th_at = ladder(0.5)
        err_key = err          # the site (and with it the identity of a recorded finding) comes from the half-decade ladder in
        if C.tier() == "thorough":     # both tiers; the thorough tier decides on a tenth-decade ladder in addition
            fine = ladder(0.1)
            if fine[1] / max(1.0, abs(fine[0])) > err / max(1.0, abs(val)):
                val, err, worst, th_at = fine
        th_s = th_at
    except R.NotModelled as e:
        rep.observations.append("R-ROUND: %s not modelled (%s)" % (site, e))
        return 0
    tol = round_tol * max(1.0, abs(val))
    # the order of magnitude of the bound is part of the site: a recorded finding does not cover the same cell getting worse
    import math
    mag = "1e%+03d" % int(round(math.log10(err_key))) if err_key > 0 else "0"
    rep.obligation(err <= tol, lambda: C.Finding(
        prop, "R-ROUND", "%s:~%s" % (site, mag),
        "evaluated in %s at |theta| = %.3g (worst of a half-decade ladder from its switch-over up to 0.1) the closed-form arm has a first-order rounding-error bound of %.2e "
        "(value %.3g; the sum %s cancels %.1e of its leading magnitude); the property allows about %.0e" % (scalar, th_s, err, val, worst[1], worst[0], round_tol),
        f["file"], f["line"]))
    rep.sample({"round_site": site, "theta_s": th_s, "value": val, "rounding_bound": err, "tolerance": tol, "worst_sum": worst[1]}, limit=60)
    return 1


def check(rep, prop, select=None, scalars=("double", "float"), obs=None, clause=None, entire=False):
    """obs: None = all observables, "return" = returned values only, "outputs" = written matrices only.
    clause: force the tolerance class ("value" / "jac") of every observable.
    entire: the function is entire in theta (exp): closed-form denominators may vanish only at theta = 0."""
    global OBS_FILTER, CLAUSE_OVERRIDE, ENTIRE
    OBS_FILTER, CLAUSE_OVERRIDE, ENTIRE = obs, clause, entire
    try:
        return _check(rep, prop, select, scalars)
    finally:
        OBS_FILTER, CLAUSE_OVERRIDE, ENTIRE = None, None, False


OBS_FILTER = None
CLAUSE_OVERRIDE = None
ENTIRE = False


def _check(rep, prop, select=None, scalars=("double", "float")):
    """select: set of (cls, short) to report under `prop` (None = all)."""
    seen = set()
    n_funcs = 0
    n_obs = 0
    for v in ("SE2", "SO3", "SE3", "SGal3"):
        F = FX.get(v)
        for f in F.functions:
            if f["kind"] != "inst" or f.get("body") is None or not f["file"].startswith(C.REPO.rstrip("/") + "/include/"):
                continue
            key = (f.get("cls"), f["short"])
            if key in seen or "Map" in str(f.get("clsargs")):
                continue
            if "double" not in str(f.get("clsargs")) and "double" not in str(f.get("targs")):
                continue
            if not (str(f.get("cls") or "").startswith("manif::") and str(f.get("cls")).endswith("Base")):
                continue      # stopping criteria of the averaging routines also compare with eps: not precision switches
            if not is_switch_function(f) and key not in KNOWN:
                continue
            seen.add(key)
            if select is not None and key not in select:
                continue
            kind = KNOWN.get(key)
            if kind is None:
                rep.broke("R-JET: new precision-switch function %s::%s is not in the confirmed table (engine/rules_jet.py KNOWN): classify it" % key)
                continue
            n_funcs += 1
            for sc in scalars:
                try:
                    n_obs += analyse_function(rep, prop, F, f, sc, kind)
                except J.Unknown as e:
                    rep.broke("R-JET cannot interpret %s::%s: %s" % (key[0], key[1], e))
                except J.NeedSign as e:
                    rep.broke("R-JET: undecided sign condition in %s::%s: %s" % (key[0], key[1], e.key))
    missing = [k for k in KNOWN if k not in seen and (select is None or k in select)]
    for k in missing:
        rep.broke("anchor vanished: precision-switch function %s::%s" % k)
    return n_funcs, n_obs
