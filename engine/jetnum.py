"""Truncated Laurent/Taylor series in one variable E with polynomial-in-parameters coefficients:
the *jet* abstract domain of R-SERIES (DESIGN.md 10.6).  A JetNum is  sum_{k=v}^{K} a_k E^k  with a_k
sympy expressions in the tangent coefficients c_i and in r_j = sqrt(S_j) (S_j a sum of squares of
coefficients); everything beyond order K = ORDER is dropped at every operation, so the cost of the
transcendental closed forms stays bounded.  No floating point."""
import sympy as sp

from . import symeval as S

ORDER = 9           # orders kept internally (the obligations use <= 3; the margin absorbs divisions by E^p, p <= 6)
E = sp.Symbol("e", positive=True)
_roots = {}         # expanded radicand -> symbol r_k


def root_symbol(rad):
    rad = sp.expand(rad)
    if rad not in _roots:
        _roots[rad] = sp.Symbol("r%d" % len(_roots), positive=True)
    return _roots[rad]


def root_relations():
    return {v: k for k, v in _roots.items()}


def reduce_roots(e):
    """apply r_k^2 -> S_k"""
    e = sp.expand(e)
    for rad, r in _roots.items():
        if e.has(r):
            p = sp.Poly(e, r)
            out = 0
            for (k,), c in p.terms():
                out += c * rad ** (k // 2) * r ** (k % 2)
            e = sp.expand(out)
    return e


class JetNum(S.Poly):
    __slots__ = ("c", "p")

    def __init__(self, coeffs, p=None):
        # p: the coefficients are exact through order p (the value is  sum c_k E^k + O(E^(p+1)))
        self.p = ORDER if p is None else min(p, ORDER)
        self.c = {k: v for k, v in coeffs.items() if k <= self.p and v != 0}

    def vz(self):
        """valuation, or p+1 for a jet that is zero through its precision"""
        return min(self.c) if self.c else self.p + 1

    @property
    def e(self):
        return sum(v * E ** k for k, v in self.c.items()) if self.c else sp.Integer(0)

    def val(self):
        return min(self.c) if self.c else None

    def is_const(self):
        return all(k == 0 for k in self.c) and all(v.is_number for v in self.c.values())

    def __repr__(self):
        return "Jet(%s + O(e^%d))" % (self.e, self.p + 1)

    def __eq__(self, o):
        return isinstance(o, JetNum) and self.c == o.c and self.p == o.p

    def __hash__(self):
        return hash(tuple(sorted(self.c.items(), key=lambda kv: kv[0])))


def lift(x):
    if isinstance(x, JetNum):
        return x
    if isinstance(x, S.Aff):
        if x.is_const():
            return JetNum({0: sp.Rational(x.c.numerator, x.c.denominator)})
        return JetNum({0: S.to_sym(x)})
    if isinstance(x, S.Poly):
        return JetNum({0: x.e})
    raise TypeError(x)


NILPOTENT = None      # a symbol eta with eta^2 = 0 (first-order perturbations, R-SERIES.deriv)


def drop_eta2(v):
    eta = NILPOTENT
    if eta is None or not v.has(eta):
        return v
    v = sp.expand(v)
    out = []
    for t in sp.Add.make_args(v):
        if not t.has(eta):
            out.append(t)
            continue
        pw = t.as_powers_dict().get(eta, 0)
        if pw == 0:            # eta hidden inside a denominator / function: expand to first order properly
            return sp.expand(sp.series(v, eta, 0, 2).removeO())
        if pw <= 1:
            out.append(t)
    return sp.Add(*out)


def simp(v):
    return drop_eta2(_simp(v))


def _simp(v):
    """normal form of a coefficient: a polynomial in the parameters and the root symbols (r_k^2 reduced),
    or a cancelled ratio of two such with a root-free denominator"""
    v = sp.expand(v)
    if v.is_number:
        return v
    if v.is_polynomial():
        return reduce_roots(v)
    n, d = sp.fraction(sp.cancel(sp.together(v)))
    n, d = reduce_roots(n), reduce_roots(d)
    for rad, r in _roots.items():
        if d.has(r):                       # d = A + B r  ->  multiply by A - B r
            p = sp.Poly(d, r)
            A_, B_ = p.coeff_monomial(1), p.coeff_monomial(r)
            conj = A_ - B_ * r
            n, d = reduce_roots(n * conj), sp.expand(A_ ** 2 - B_ ** 2 * rad)
    if d.is_number:
        return sp.expand(n / d)
    return sp.cancel(n / d)


def add(a, b, sign=1):
    a, b = lift(a), lift(b)
    out = dict(a.c)
    for k, v in b.c.items():
        out[k] = simp(out.get(k, 0) + sign * v)
    return JetNum(out, min(a.p, b.p))


def mul(a, b):
    a, b = lift(a), lift(b)
    pmax = min(a.p + b.vz(), b.p + a.vz(), ORDER)
    out = {}
    for i, x in a.c.items():
        for j, y in b.c.items():
            if i + j <= pmax:
                out[i + j] = out.get(i + j, 0) + x * y
    return JetNum({k: simp(v) for k, v in out.items()}, pmax)


def neg(a):
    a = lift(a)
    return JetNum({k: -v for k, v in a.c.items()}, a.p)


def _unit_series(a):
    """a = E^p * a0 * (1 + u): returns (p, a0, u) with u of valuation >= 1"""
    p = a.val()
    if p is None:
        raise ZeroDivisionError("zero jet")
    a0 = a.c[p]
    u = JetNum({k - p: simp(v / a0) for k, v in a.c.items() if k != p}, a.p - p)
    return p, a0, u


def power_series(u, coeff):
    """sum_k coeff(k) u^k for a jet u of valuation >= 1"""
    out = JetNum({0: sp.Integer(1) * coeff(0)})
    term = JetNum({0: sp.Integer(1)})
    for k in range(1, ORDER + 2):
        term = mul(term, u)
        if not term.c:
            break
        ck = coeff(k)
        if ck != 0:
            out = add(out, JetNum({i: ck * v for i, v in term.c.items()}, term.p))
    return JetNum(out.c, u.p)


def _inv_pure(a):
    a = lift(a)
    p, a0, u = _unit_series(a)
    s = power_series(u, lambda k: sp.Integer(-1) ** k)
    return JetNum({k - p: simp(v / a0) for k, v in s.c.items()}, s.p - p)


def div(a, b):
    return mul(a, inv(b))


def _sqrt_pure(a):
    a = lift(a)
    if not a.c:
        return JetNum({}, a.p // 2)
    p, a0, u = _unit_series(a)
    if p % 2:
        raise ValueError("sqrt of a jet with odd valuation")
    s = power_series(u, lambda k: sp.binomial(sp.Rational(1, 2), k))
    a0e = sp.expand(a0)
    if a0e.is_number:
        r0 = sp.sqrt(a0e)
    else:
        r0 = root_symbol(a0e)
    return JetNum({k + p // 2: simp(v * r0) for k, v in s.c.items()}, s.p + p // 2)


def _split0(a):
    a = lift(a)
    if a.val() is not None and a.val() < 0:
        raise ValueError("transcendental function of a jet with a pole")
    a0 = a.c.get(0, sp.Integer(0))
    u = JetNum({k: v for k, v in a.c.items() if k != 0}, a.p)
    return a0, u


def _sin_pure(a):
    a0, u = _split0(a)
    if a0 == 0:
        return _sin_u(u)
    return add(mul(JetNum({0: sp.sin(a0)}), _cos_u(u)), mul(JetNum({0: sp.cos(a0)}), _sin_u(u)))


def _sin_u(u):
    if not u.c:
        return JetNum({}, u.p)
    out = JetNum({}, u.p)
    term = JetNum({0: sp.Integer(1)})
    for k in range(1, ORDER + 2):
        term = mul(term, u)
        if not term.c:
            break
        if k % 2:
            ck = sp.Integer(-1) ** ((k - 1) // 2) / sp.factorial(k)
            out = add(out, JetNum({i: ck * v for i, v in term.c.items()}, term.p))
    return out


def _cos_u(u):
    out = JetNum({0: sp.Integer(1)}, u.p)
    if not u.c:
        return out
    term = JetNum({0: sp.Integer(1)})
    for k in range(1, ORDER + 2):
        term = mul(term, u)
        if not term.c:
            break
        if k % 2 == 0:
            ck = sp.Integer(-1) ** (k // 2) / sp.factorial(k)
            out = add(out, JetNum({i: ck * v for i, v in term.c.items()}, term.p))
    return out


def _cos_pure(a):
    a0, u = _split0(a)
    if a0 == 0:
        return _cos_u(u)
    return add(mul(JetNum({0: sp.cos(a0)}), _cos_u(u)), mul(JetNum({0: sp.sin(a0)}), _sin_u(u)), -1)


def _atan_pure(a):
    a0, u = _split0(a)
    if a0 != 0:
        raise ValueError("atan of a jet with non-zero constant term")
    out = JetNum({}, u.p)
    if not u.c:
        return out
    term = JetNum({0: sp.Integer(1)})
    for k in range(1, ORDER + 2):
        term = mul(term, u)
        if not term.c:
            break
        if k % 2:
            ck = sp.Integer(-1) ** ((k - 1) // 2) / sp.Integer(k)
            out = add(out, JetNum({i: ck * v for i, v in term.c.items()}, term.p))
    return out


def truncate(a, order):
    """coefficients through `order`; raises when the jet is not known that far"""
    a = lift(a)
    if a.p < order:
        raise ValueError("jet known through order %d only, %d needed" % (a.p, order))
    return {k: reduce_roots(v) for k, v in a.c.items() if k <= order and reduce_roots(v) != 0}


# ---- first-order (dual) extension: a = A + eta*B with eta^2 = 0:  f(a) = f(A) + eta * B * f'(A) ---------------------
def split_eta(a):
    a = lift(a)
    eta = NILPOTENT
    if eta is None or not any(v.has(eta) for v in a.c.values()):
        return a, None
    A_, B_ = {}, {}
    for k, v in a.c.items():
        v = sp.expand(v)
        v0 = v.coeff(eta, 0)
        v1 = v.coeff(eta, 1)
        if v0 != 0:
            A_[k] = v0
        if v1 != 0:
            B_[k] = v1
    return JetNum(A_, a.p), JetNum(B_, a.p)


def _dual(a, f, df):
    A_, B_ = split_eta(a)
    if B_ is None:
        return f(A_)
    eta_ = JetNum({0: NILPOTENT})
    return add(f(A_), mul(eta_, mul(B_, df(A_))))


def inv(a):
    return _dual(a, _inv_pure, lambda A_: neg(mul(_inv_pure(A_), _inv_pure(A_))))


def sqrt(a):
    def d(A_):
        if not A_.c:
            raise ValueError("sqrt is not differentiable at zero")
        return _inv_pure(mul(JetNum({0: sp.Integer(2)}), _sqrt_pure(A_)))
    return _dual(a, _sqrt_pure, d)


def sin(a):
    return _dual(a, _sin_pure, _cos_pure)


def cos(a):
    return _dual(a, _cos_pure, lambda A_: neg(_sin_pure(A_)))


def atan(a):
    return _dual(a, _atan_pure, lambda A_: _inv_pure(add(JetNum({0: sp.Integer(1)}), mul(A_, A_))))
