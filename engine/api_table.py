"""Frozen table of documented public API entries (DESIGN.md C19 / E1).

Each entry is a one-statement client program over fixed operand names.  The
operands available inside a witness body are (K = operand kind under test):

  X, Y   const group operands of kind K          t, s   const tangent operands of kind K
  Xo, to const owning group / tangent            Xm, tm mutable operands of kind K (not for Map<const>)
  J, J2  Jacobian lvalues (DoF x DoF)            Jvm    Dim x DoF lvalue        Jvv  Dim x Dim lvalue
  v      Vector (Dim)                            sc     Scalar                  i    int
  alg    LieAlg                                  xc     group DataType vector   tc   tangent DataType vector
  os     std::ostream&                           pts    std::vector<G> (owning)
Types: S scalar, G owning group, T owning tangent, GK / TK operand-kind types.

flags: m = needs a mutable operand (no Map<const> column)
       o = owning-only (the entry's signature takes LieGroup / a container of LieGroup)
       d = declared by the per-group classes only (no column for access through LieGroupBase&)
groups: None = all; otherwise a list of group family names the entry applies to.
section: which doc the entry comes from (lie_group_base.h / tangent_base.h / functions.h /
         README table / algorithms / per-group header / generic-code doc).
"""

FAMILIES = ["SO2", "SE2", "SO3", "SE3", "SE_2_3", "SGal3", "Rn", "Bundle"]
ROT3 = ["SO3", "SE3", "SE_2_3", "SGal3"]


def E(id, body, flags="", groups=None, section="", not_groups=None):
    return {"id": id, "body": body, "flags": flags, "groups": groups,
            "not_groups": not_groups or [], "section": section}


GROUP = "lie_group_base.h"
TANG = "tangent_base.h"
FREE = "functions.h"
ALGO = "algorithms"
README = "README.md"

ENTRIES = [
    # ---------------- LieGroupBase: const API -------------------------------
    E("g.coeffs", "const typename G::DataType& r = X.coeffs(); use(r);", section=GROUP),
    E("g.data", "const S* r = X.data(); use(r);", section=GROUP),
    E("g.cast_float", "auto r = X.template cast<float>(); static_assert(std::is_same<typename decltype(r)::Scalar, float>::value, \"cast scalar\"); use(r);", section=GROUP),
    E("g.cast_double", "auto r = X.template cast<double>(); static_assert(std::is_same<typename decltype(r)::Scalar, double>::value, \"cast scalar\"); use(r);", section=GROUP),
    E("g.inverse", "G r = X.inverse(); use(r);", section=GROUP),
    E("g.inverse_J", "G r = X.inverse(J); use(r);", section=GROUP),
    E("g.log", "T r = X.log(); use(r);", section=GROUP),
    E("g.log_J", "T r = X.log(J); use(r);", section=GROUP),
    E("g.lift", "T r = X.lift(); use(r);", section=GROUP),
    E("g.lift_J", "T r = X.lift(J); use(r);", section=GROUP),
    E("g.compose", "G r = X.compose(Y); use(r);", section=GROUP),
    E("g.compose_JJ", "G r = X.compose(Y, J, J2); use(r);", section=GROUP),
    E("g.compose_J_", "G r = X.compose(Y, J, G::_); use(r);", section=GROUP),
    E("g.compose__J", "G r = X.compose(Y, G::_, J2); use(r);", section=GROUP),
    E("g.compose_owning", "G r = X.compose(Xo); G r2 = Xo.compose(X); use(r); use(r2);", section=GROUP),
    E("g.act", "typename G::Vector r = X.act(v); use(r);", section=GROUP),
    E("g.act_JJ", "typename G::Vector r = X.act(v, Jvm, Jvv); use(r);", section=GROUP),
    E("g.adj", "typename G::Jacobian r = X.adj(); use(r);", section=GROUP),
    E("g.rplus", "G r = X.rplus(t); use(r);", section=GROUP),
    E("g.rplus_JJ", "G r = X.rplus(t, J, J2); use(r);", section=GROUP),
    E("g.lplus", "G r = X.lplus(t); use(r);", section=GROUP),
    E("g.lplus_JJ", "G r = X.lplus(t, J, J2); use(r);", section=GROUP),
    E("g.plus", "G r = X.plus(t); use(r);", section=GROUP),
    E("g.plus_JJ", "G r = X.plus(t, J, J2); use(r);", section=GROUP),
    E("g.rminus", "T r = X.rminus(Y); use(r);", section=GROUP),
    E("g.rminus_JJ", "T r = X.rminus(Y, J, J2); use(r);", section=GROUP),
    E("g.lminus", "T r = X.lminus(Y); use(r);", section=GROUP),
    E("g.lminus_JJ", "T r = X.lminus(Y, J, J2); use(r);", section=GROUP),
    E("g.lminus_J_", "T r = X.lminus(Y, J, G::_); T r2 = X.lminus(Y, G::_, J2); use(r); use(r2);", section=GROUP),
    E("g.minus", "T r = X.minus(Y); use(r);", section=GROUP),
    E("g.minus_JJ", "T r = X.minus(Y, J, J2); use(r);", section=GROUP),
    E("g.between", "G r = X.between(Y); use(r);", section=GROUP),
    E("g.between_JJ", "G r = X.between(Y, J, J2); use(r);", section=GROUP),
    E("g.isApprox", "bool r = X.isApprox(Y); use(r);", section=GROUP),
    E("g.isApprox_eps", "bool r = X.isApprox(Y, sc); use(r);", section=GROUP),
    E("g.op_eq", "bool r = (X == Y); use(r);", section=GROUP),
    E("g.op_plus", "G r = X + t; use(r);", section=README),
    E("g.op_minus", "T r = X - Y; use(r);", section=README),
    E("g.op_mul", "G r = X * Y; use(r);", section=README),
    E("g.op_index_const", "S r = X[0]; use(r);", section=GROUP),
    E("g.size", "unsigned int r = X.size(); use(r);", section=GROUP),
    E("g.Identity", "G r = GK::Identity(); use(r);", section=GROUP),
    E("g.Random", "G r = GK::Random(); use(r);", section=GROUP),
    E("g.stream", "os << X;", section=GROUP),
    E("g.transform", "typename G::Transformation r = X.transform(); use(r);", "d", section="per-group *_base.h"),
    E("g.static_sizes", "static_assert(GK::DoF == G::DoF && GK::Dim == G::Dim && GK::RepSize == G::RepSize, \"sizes\"); int r = GK::DoF + GK::Dim + GK::RepSize; use(r);", section=GROUP),
    E("g.copy_construct_owning", "G r(X); use(r);", section=GROUP),
    E("g.construct_from_coeffs", "G r(xc); use(r);", section=GROUP),
    # ---------------- LieGroupBase: mutating API ----------------------------
    E("g.assign_kind", "Xm = X; use(Xm);", "m", section=GROUP),
    E("g.assign_owning", "Xm = Xo; use(Xm);", "m", section=GROUP),
    E("g.assign_result", "Xm = X.compose(Y); Xm = X.inverse(); use(Xm);", "m", section=GROUP),
    E("g.assign_eigen", "Xm = xc; use(Xm);", "m", section=GROUP),
    E("g.setIdentity", "Xm.setIdentity(); use(Xm);", "m", section=GROUP),
    E("g.setRandom", "Xm.setRandom(); use(Xm);", "m", section=GROUP),
    E("g.op_plus_assign", "Xm += t; use(Xm);", "m", section=README),
    E("g.op_mul_assign", "Xm *= Y; use(Xm);", "m", section=README),
    E("g.coeffs_mut", "typename GK::DataType& r = Xm.coeffs(); use(r);", "m", section=GROUP),
    E("g.data_mut", "S* r = Xm.data(); use(r);", "m", section=GROUP),
    E("g.op_index_mut", "Xm[0] = sc; use(Xm);", "m", section=GROUP),
    # ---------------- TangentBase: const API --------------------------------
    E("t.coeffs", "const typename T::DataType& r = t.coeffs(); use(r);", section=TANG),
    E("t.data", "const S* r = t.data(); use(r);", section=TANG),
    E("t.cast_float", "auto r = t.template cast<float>(); static_assert(std::is_same<typename decltype(r)::Scalar, float>::value, \"cast scalar\"); use(r);", section=TANG),
    E("t.cast_double", "auto r = t.template cast<double>(); static_assert(std::is_same<typename decltype(r)::Scalar, double>::value, \"cast scalar\"); use(r);", section=TANG),
    E("t.generator", "typename T::LieAlg r = t.generator(i); use(r);", section=TANG),
    E("t.innerWeights", "typename T::Jacobian r = t.innerWeights(); use(r);", section=TANG),
    E("t.inner", "S r = t.inner(s); use(r);", section=README),
    E("t.weightedNorm", "S r = t.weightedNorm(); use(r);", section=README),
    E("t.squaredWeightedNorm", "S r = t.squaredWeightedNorm(); use(r);", section=README),
    E("t.hat", "typename T::LieAlg r = t.hat(); use(r);", section=README),
    E("t.exp", "G r = t.exp(); use(r);", section=README),
    E("t.exp_J", "G r = t.exp(J); use(r);", section=TANG),
    E("t.retract", "G r = t.retract(); G r2 = t.retract(J); use(r); use(r2);", section=TANG),
    E("t.rplus_X", "G r = t.rplus(Xo); use(r);", section=TANG),
    E("t.rplus_X_JJ", "G r = t.rplus(Xo, J, J2); use(r);", section=TANG),
    E("t.lplus_X", "G r = t.lplus(Xo); use(r);", section=README),
    E("t.lplus_X_JJ", "G r = t.lplus(Xo, J, J2); use(r);", section=TANG),
    E("t.plus_X", "G r = t.plus(Xo); use(r);", section=README),
    E("t.plus_X_JJ", "G r = t.plus(Xo, J, J2); use(r);", section=TANG),
    E("t.plus_X_kind", "G r = t.plus(X); G r2 = t.lplus(X); G r3 = t.rplus(X); use(r); use(r2); use(r3);", section=README),
    E("t.plus_t", "T r = t.plus(s); use(r);", section=TANG),
    E("t.plus_t_JJ", "T r = t.plus(s, J, J2); use(r);", section=TANG),
    E("t.minus_t", "T r = t.minus(s); use(r);", section=TANG),
    E("t.minus_t_JJ", "T r = t.minus(s, J, J2); use(r);", section=TANG),
    E("t.rjac", "typename T::Jacobian r = t.rjac(); use(r);", section=TANG),
    E("t.ljac", "typename T::Jacobian r = t.ljac(); use(r);", section=TANG),
    E("t.rjacinv", "typename T::Jacobian r = t.rjacinv(); use(r);", section=TANG),
    E("t.ljacinv", "typename T::Jacobian r = t.ljacinv(); use(r);", section=TANG),
    E("t.smallAdj", "typename T::Jacobian r = t.smallAdj(); use(r);", section=README),
    E("t.bracket", "T r = t.bracket(s); use(r);", section=TANG),
    E("t.isApprox_t", "bool r = t.isApprox(s); bool r2 = t.isApprox(s, sc); use(r); use(r2);", section=TANG),
    E("t.isApprox_vec", "bool r = t.isApprox(tc); bool r2 = t.isApprox(tc, sc); use(r); use(r2);", section=TANG),
    E("t.op_neg", "T r = -t; use(r);", section=TANG),
    E("t.op_plus_X", "G r = t + Xo; use(r);", section=README),
    E("t.op_plus_X_kind", "G r = t + X; use(r);", section=README),
    E("t.op_index_const", "S r = t[0]; use(r);", section=TANG),
    E("t.size", "unsigned int r = t.size(); use(r);", section=TANG),
    E("t.Zero", "T r = TK::Zero(); use(r);", section=TANG),
    E("t.Random", "T r = TK::Random(); use(r);", section=TANG),
    E("t.Generator", "typename T::LieAlg r = TK::Generator(i); use(r);", section=TANG),
    E("t.InnerWeights", "typename T::Jacobian r = TK::InnerWeights(); use(r);", section=TANG),
    E("t.Bracket", "T r = TK::Bracket(t, s); use(r);", section=TANG),
    E("t.Vee", "T r = TK::Vee(alg); use(r);", section=TANG),
    E("t.op_plus_t", "T r = t + s; use(r);", section=TANG),
    E("t.op_minus_t", "T r = t - s; use(r);", section=TANG),
    E("t.op_plus_vec", "T r = t + tc; use(r);", section=TANG),
    E("t.op_minus_vec", "T r = t - tc; use(r);", section=TANG),
    E("t.op_vec_plus", "typename T::DataType r = tc + t; use(r);", section=TANG),
    E("t.op_vec_minus", "typename T::DataType r = tc - t; use(r);", section=TANG),
    E("t.op_mul_scalar", "T r = t * sc; T r2 = sc * t; use(r); use(r2);", section=TANG),
    E("t.op_div_scalar", "T r = t / sc; use(r);", section=TANG),
    E("t.op_jac_mul", "T r = J * t; use(r);", section=TANG),
    E("t.op_eq_t", "bool r = (t == s); use(r);", section=TANG),
    E("t.op_eq_vec", "bool r = (t == tc); use(r);", section=TANG),
    E("t.stream", "os << t;", section=TANG),
    E("t.static_sizes", "static_assert(TK::DoF == T::DoF && TK::Dim == T::Dim && TK::RepSize == T::RepSize, \"sizes\"); int r = TK::DoF; use(r);", section=TANG),
    E("t.copy_construct_owning", "T r(t); use(r);", section=TANG),
    E("t.construct_from_coeffs", "T r(tc); use(r);", section=TANG),
    # ---------------- TangentBase: mutating API -----------------------------
    E("t.assign_kind", "tm = t; use(tm);", "m", section=TANG),
    E("t.assign_owning", "tm = to; use(tm);", "m", section=TANG),
    E("t.assign_result", "tm = X.log(); tm = t + s; use(tm);", "m", section=TANG),
    E("t.assign_eigen", "tm = tc; use(tm);", "m", section=TANG),
    E("t.setZero", "tm.setZero(); use(tm);", "m", section=TANG),
    E("t.setRandom", "tm.setRandom(); use(tm);", "m", section=TANG),
    E("t.setVee", "tm.setVee(alg); use(tm);", "m", section=TANG),
    E("t.op_plus_assign_t", "tm += s; use(tm);", "m", section=TANG),
    E("t.op_minus_assign_t", "tm -= s; use(tm);", "m", section=TANG),
    E("t.op_plus_assign_vec", "tm += tc; use(tm);", "m", section=TANG),
    E("t.op_minus_assign_vec", "tm -= tc; use(tm);", "m", section=TANG),
    E("t.op_mul_assign", "tm *= sc; use(tm);", "m", section=TANG),
    E("t.op_div_assign", "tm /= sc; use(tm);", "m", section=TANG),
    E("t.coeffs_mut", "typename TK::DataType& r = tm.coeffs(); use(r);", "m", section=TANG),
    E("t.data_mut", "S* r = tm.data(); use(r);", "m", section=TANG),
    E("t.op_index_mut", "tm[0] = sc; use(tm);", "m", section=TANG),
    # ---------------- functions.h ------------------------------------------
    E("f.coeffs_g", "const typename GK::DataType& r = manif::coeffs(X); use(r);", section=FREE),
    E("f.coeffs_t", "const typename TK::DataType& r = manif::coeffs(t); use(r);", section=FREE),
    E("f.data_g_const", "const S* r = manif::data(X); use(r);", section=FREE),
    E("f.data_t_const", "const S* r = manif::data(t); use(r);", section=FREE),
    E("f.data_g_mut", "S* r = manif::data(Xm); use(r);", "m", section=FREE),
    E("f.data_t_mut", "S* r = manif::data(tm); use(r);", "m", section=FREE),
    E("f.identity", "manif::identity(Xm); use(Xm);", "m", section=FREE),
    E("f.Identity", "G r = manif::Identity<G>(); use(r);", section=FREE),
    E("f.zero", "manif::zero(tm); use(tm);", "m", section=FREE),
    E("f.Zero", "T r = manif::Zero<T>(); use(r);", section=FREE),
    E("f.random_g", "manif::random(Xm); use(Xm);", "m", section=FREE),
    E("f.random_t", "manif::random(tm); use(tm);", "m", section=FREE),
    E("f.Random", "G r = manif::Random<G>(); T r2 = manif::Random<T>(); use(r); use(r2);", section=FREE),
    E("f.inverse", "G r = manif::inverse(X); use(r);", section=FREE),
    E("f.inverse_J", "G r = manif::inverse(X, J); use(r);", section=FREE),
    E("f.rplus", "G r = manif::rplus(X, t); use(r);", section=FREE),
    E("f.rplus_JJ", "G r = manif::rplus(X, t, J, J2); use(r);", section=FREE),
    E("f.lplus", "G r = manif::lplus(X, t); use(r);", section=FREE),
    E("f.lplus_JJ", "G r = manif::lplus(X, t, J, J2); use(r);", section=FREE),
    E("f.plus", "G r = manif::plus(X, t); use(r);", section=FREE),
    E("f.plus_JJ", "G r = manif::plus(X, t, J, J2); use(r);", section=FREE),
    E("f.rminus", "T r = manif::rminus(X, Y); use(r);", section=FREE),
    E("f.rminus_JJ", "T r = manif::rminus(X, Y, J, J2); use(r);", section=FREE),
    E("f.lminus", "T r = manif::lminus(X, Y); use(r);", section=FREE),
    E("f.lminus_JJ", "T r = manif::lminus(X, Y, J, J2); use(r);", section=FREE),
    E("f.minus", "T r = manif::minus(X, Y); use(r);", section=FREE),
    E("f.minus_JJ", "T r = manif::minus(X, Y, J, J2); use(r);", section=FREE),
    E("f.lift", "T r = manif::lift(X); T r2 = manif::lift(X, J); use(r); use(r2);", section=FREE),
    E("f.log", "T r = manif::log(X); use(r);", section=FREE),
    E("f.log_J", "T r = manif::log(X, J); use(r);", section=FREE),
    E("f.retract", "G r = manif::retract(t); G r2 = manif::retract(t, J); use(r); use(r2);", section=FREE),
    E("f.exp", "G r = manif::exp(t); use(r);", section=FREE),
    E("f.exp_J", "G r = manif::exp(t, J); use(r);", section=FREE),
    E("f.compose", "G r = manif::compose(X, Y); use(r);", section=FREE),
    E("f.compose_JJ", "G r = manif::compose(X, Y, J, J2); use(r);", section=FREE),
    E("f.between", "G r = manif::between(X, Y); use(r);", section=FREE),
    E("f.between_JJ", "G r = manif::between(X, Y, J, J2); use(r);", section=FREE),
    E("f.act", "typename G::Vector r = manif::act(X, v); use(r);", section=FREE),
    E("f.act_JJ", "typename G::Vector r = manif::act(X, v, Jvm, Jvv); use(r);", section=FREE),
    # ---------------- algorithms ------------------------------------------
    E("a.interpolate", "G r = manif::interpolate(X, Y, sc); use(r);", section=ALGO),
    E("a.interpolate_methods", "G r = manif::interpolate(X, Y, sc, manif::INTERP_METHOD::CUBIC, to, to); G r2 = manif::interpolate(X, Y, sc, manif::INTERP_METHOD::CNSMOOTH, to, to); use(r); use(r2);", section=ALGO),
    E("a.interpolate_slerp", "G r = manif::interpolate_slerp(X, Y, sc); use(r);", section=ALGO),
    E("a.interpolate_cubic", "G r = manif::interpolate_cubic(X, Y, sc); G r2 = manif::interpolate_cubic(X, Y, sc, to, to); use(r); use(r2);", section=ALGO),
    E("a.interpolate_smooth", "G r = manif::interpolate_smooth(X, Y, sc, 2u); G r2 = manif::interpolate_smooth(X, Y, sc, 3u, to, to); use(r); use(r2);", section=ALGO),
    E("a.smoothing_phi", "S r = manif::smoothing_phi(sc, 3); use(r);", section=ALGO),
    E("a.average_biinvariant", "G r = manif::average_biinvariant(pts); G r2 = manif::average_biinvariant(pts, sc, 10); use(r); use(r2);", "o", section=ALGO),
    E("a.average", "G r = manif::average(pts); G r2 = manif::average(pts, sc, 10); use(r); use(r2);", "o", section=ALGO),
    E("a.average_frechet_left", "G r = manif::average_frechet_left(pts); G r2 = manif::average_frechet_left(pts, sc, 10); use(r); use(r2);", "o", section=ALGO),
    E("a.average_frechet_right", "G r = manif::average_frechet_right(pts); G r2 = manif::average_frechet_right(pts, sc, 10); use(r); use(r2);", "o", section=ALGO),
    E("a.decasteljau", "std::vector<G> r = manif::decasteljau(pts, 3u, 2u); std::vector<G> r2 = manif::decasteljau(pts, 2u, 1u, true); use(r); use(r2);", "o", section=ALGO),
    # ---------------- generic-code doc ------------------------------------
    E("d.generic_print", "vt_generic_print(X, os);", section="docs/pages/cpp/Writing-generic-code.md"),
    E("d.generic_ominus_norm", "S r = vt_ominus_sq_norm(X, Xo); S r2 = vt_ominus_sq_norm(Xo, X); use(r); use(r2);", section="docs/pages/cpp/Writing-generic-code.md"),
    # ---------------- per-group accessors / setters --------------------------
    E("so2.accessors", "S a = X.real() + X.imag() + X.angle(); typename G::Rotation R = X.rotation(); use(a); use(R);", groups=["SO2"], section="SO2_base.h"),
    E("so2.normalize", "Xm.normalize(); use(Xm);", "m", groups=["SO2"], section="SO2_base.h"),
    E("so2.ctors", "G a(sc); G b(sc, sc); use(a); use(b);", groups=["SO2"], section="SO2.h"),
    E("so2t.accessors", "S a = t.angle(); use(a);", groups=["SO2"], section="SO2Tangent_base.h"),
    E("se2.accessors", "S a = X.real() + X.imag() + X.angle() + X.x() + X.y(); typename G::Rotation R = X.rotation(); typename G::Translation p = X.translation(); typename G::Isometry h = X.isometry(); use(a); use(R); use(p); use(h);", groups=["SE2"], section="SE2_base.h"),
    E("se2.normalize", "Xm.normalize(); use(Xm);", "m", groups=["SE2"], section="SE2_base.h"),
    E("se2.ctors", "G a(sc, sc, sc); G b(sc, sc, sc, sc); G c(sc, sc, std::complex<S>(sc, sc)); G d(typename G::Translation(sc, sc), std::complex<S>(sc, sc)); G e(X.isometry()); use(a); use(b); use(c); use(d); use(e);", groups=["SE2"], section="SE2.h"),
    E("se2t.accessors", "S a = t.x() + t.y() + t.angle(); use(a);", groups=["SE2"], section="SE2Tangent_base.h"),
    E("so3.accessors", "S a = X.x() + X.y() + X.z() + X.w(); typename G::Rotation R = X.rotation(); Eigen::Quaternion<S> q = X.quat(); use(a); use(R); use(q);", groups=["SO3"], section="SO3_base.h"),
    E("so3.setters", "Xm.normalize(); Xm.quat(Eigen::Quaternion<S>::Identity()); Xm.quat(Eigen::Matrix<S, 4, 1>(sc, sc, sc, sc)); use(Xm);", "m", groups=["SO3"], section="SO3_base.h"),
    E("so3.ctors", "G a(Eigen::Quaternion<S>::Identity()); G b(sc, sc, sc, sc); G c(Eigen::AngleAxis<S>(sc, Eigen::Matrix<S, 3, 1>::UnitX())); G d(sc, sc, sc); use(a); use(b); use(c); use(d);", groups=["SO3"], section="SO3.h"),
    E("so3t.accessors", "S a = t.x() + t.y() + t.z(); Eigen::Matrix<S, 3, 1> w = t.ang(); use(a); use(w);", groups=["SO3"], section="SO3Tangent_base.h"),
    E("se3.accessors", "S a = X.x() + X.y() + X.z(); typename G::Rotation R = X.rotation(); Eigen::Quaternion<S> q = X.quat(); typename G::Translation p = X.translation(); typename G::Isometry h = X.isometry(); use(a); use(R); use(q); use(p); use(h);", groups=["SE3"], section="SE3_base.h"),
    E("se3.setters", "Xm.normalize(); Xm.quat(Eigen::Quaternion<S>::Identity()); Xm.quat(Eigen::Matrix<S, 4, 1>(sc, sc, sc, sc)); Xm.quat(manif::SO3<S>::Identity()); Xm.translation(typename G::Translation(sc, sc, sc)); use(Xm);", "m", groups=["SE3"], section="SE3_base.h"),
    E("se3.ctors", "typename G::Translation p(sc, sc, sc); G a(p, Eigen::Quaternion<S>::Identity()); G b(p, Eigen::AngleAxis<S>(sc, Eigen::Matrix<S, 3, 1>::UnitX())); G c(p, manif::SO3<S>::Identity()); G d(sc, sc, sc, sc, sc, sc); G e(X.isometry()); use(a); use(b); use(c); use(d); use(e);", groups=["SE3"], section="SE3.h"),
    E("se3t.accessors", "Eigen::Matrix<S, 3, 1> a = t.lin(); Eigen::Matrix<S, 3, 1> w = t.ang(); use(a); use(w);", groups=["SE3"], section="SE3Tangent_base.h"),
    E("se23.accessors", "S a = X.x() + X.y() + X.z() + X.vx() + X.vy() + X.vz(); typename G::Rotation R = X.rotation(); Eigen::Quaternion<S> q = X.quat(); typename G::Translation p = X.translation(); typename G::LinearVelocity lv = X.linearVelocity(); typename G::Isometry h = X.isometry(); use(a); use(R); use(q); use(p); use(lv); use(h);", groups=["SE_2_3"], section="SE_2_3_base.h"),
    E("se23.normalize", "Xm.normalize(); use(Xm);", "m", groups=["SE_2_3"], section="SE_2_3_base.h"),
    E("se23.ctors", "typename G::Translation p(sc, sc, sc); typename G::LinearVelocity lv(sc, sc, sc); G a(p, Eigen::Quaternion<S>::Identity(), lv); G b(p, Eigen::AngleAxis<S>(sc, Eigen::Matrix<S, 3, 1>::UnitX()), lv); G c(p, manif::SO3<S>::Identity(), lv); G d(sc, sc, sc, sc, sc, sc, sc, sc, sc); G e(Eigen::Transform<S, 3, Eigen::Isometry>::Identity(), lv); use(a); use(b); use(c); use(d); use(e);", groups=["SE_2_3"], section="SE_2_3.h"),
    E("se23t.accessors", "Eigen::Matrix<S, 3, 1> a = t.lin(); Eigen::Matrix<S, 3, 1> w = t.ang(); Eigen::Matrix<S, 3, 1> b = t.lin2(); use(a); use(w); use(b);", groups=["SE_2_3"], section="SE_2_3Tangent_base.h"),
    E("sgal3.accessors", "S a = X.x() + X.y() + X.z() + X.vx() + X.vy() + X.vz() + X.t(); typename G::Rotation R = X.rotation(); Eigen::Quaternion<S> q = X.quat(); typename G::Translation p = X.translation(); typename G::LinearVelocity lv = X.linearVelocity(); typename G::Isometry h = X.isometry(); use(a); use(R); use(q); use(p); use(lv); use(h);", groups=["SGal3"], section="SGal3_base.h"),
    E("sgal3.normalize", "Xm.normalize(); use(Xm);", "m", groups=["SGal3"], section="SGal3_base.h"),
    E("sgal3.ctors", "typename G::Translation p(sc, sc, sc); typename G::LinearVelocity lv(sc, sc, sc); G a(p, Eigen::Quaternion<S>::Identity(), lv, sc); G b(p, Eigen::AngleAxis<S>(sc, Eigen::Matrix<S, 3, 1>::UnitX()), lv, sc); G c(p, manif::SO3<S>::Identity(), lv, sc); G d(sc, sc, sc, sc, sc, sc, sc, sc, sc, sc); G e(Eigen::Transform<S, 3, Eigen::Isometry>::Identity(), lv, sc); use(a); use(b); use(c); use(d); use(e);", groups=["SGal3"], section="SGal3.h"),
    E("sgal3t.accessors", "Eigen::Matrix<S, 3, 1> a = t.lin(); Eigen::Matrix<S, 3, 1> w = t.ang(); Eigen::Matrix<S, 3, 1> b = t.lin2(); S c = t.t(); use(a); use(w); use(b); use(c);", groups=["SGal3"], section="SGal3Tangent_base.h"),
    E("bundle.element_const", "auto e0 = X.template element<0>(); typename G::template Element<0> c(e0); use(c);", groups=["Bundle"], section="Bundle_base.h"),
    E("bundle.element_mut", "auto e0 = Xm.template element<0>(); e0.setIdentity(); use(Xm);", "m", groups=["Bundle"], section="Bundle_base.h"),
    E("bundlet.element_const", "auto e0 = t.template element<0>(); typename T::template Element<0> c(e0); use(c);", groups=["Bundle"], section="BundleTangent_base.h"),
    E("bundlet.element_mut", "auto e0 = tm.template element<0>(); e0.setZero(); use(tm);", "m", groups=["Bundle"], section="BundleTangent_base.h"),
]

# Entries whose Map / Map<const> column is outside the documented contract, with reason.
KIND_EXEMPT = {
}


def entry_ids():
    return [e["id"] for e in ENTRIES]
