"""C04 - plus, minus, between are the documented compositions; all aliases agree (R-FWD)."""
from . import common as C
from . import facts as FX
from . import termeval as TE

G_DEFS = {
    # canonical definitions, property statement / README "Composed Operation" table
    "rplus": "(compose X (exp t))",
    "lplus": "(compose (exp t) X)",
    "rminus": "(log (compose (inverse Y) X))",
    "lminus": "(log (compose X (inverse Y)))",
    "between": "(compose (inverse X) Y)",
}


def owning(F, base):
    """owning group / tangent type strings of the driver (clsargs[0] of LieGroupBase<G> instantiations)."""
    out = set()
    for f in F.functions:
        if f["kind"] == "inst" and f.get("cls") == base and f.get("clsargs"):
            a = str(f["clsargs"][0])
            if not a.startswith("Eigen::Map") and "double" in a:
                out.add(a)
    return sorted(out)


def method(F, cls, clsarg, short, pred=None):
    for f in F.functions:
        if f["kind"] != "inst" or f.get("cls") != cls or f["short"] != short or f.get("body") is None:
            continue
        if str((f.get("clsargs") or [""])[0]) != clsarg:
            continue
        if pred and not pred(f):
            continue
        return f
    return None


def free(F, short, pred=None):
    for f in F.functions:
        if f["kind"] != "inst" or f.get("cls") or f["short"] != short or f.get("body") is None:
            continue
        if not f["file"].endswith("/include/manif/functions.h"):
            continue
        if pred and not pred(f):
            continue
        return f
    return None


def p0_has(s):
    return lambda f: f["params"] and s in f["params"][0].get("cty", "")


def p1_has(s):
    return lambda f: len(f["params"]) > 1 and s in f["params"][1].get("cty", "")


def evaluate(F, f, this, atoms):
    """Run f with atom operands; optional params become engaged outputs J0, J1, ...  Returns (ret, outs, effects)."""
    te = TE.TermEval(F)
    args = []
    k = 0
    ai = iter(atoms)
    for p in f["params"]:
        if "opt" in p or "optother" in p:
            args.append(TE.Out("J%d" % k))
            k += 1
        else:
            args.append(next(ai, None))
    ret = te.run(f, this, args)
    return ret, dict(te.outs), list(te.effects)


def run(args):
    rep = C.Report("C04", "proof", "term normalisation of every alias by inlining the generic layer down to the per-group vocabulary (R-FWD)")
    n_groups = 0
    n_entries = 0
    for v in FX.variants():
        F = FX.get(v)
        gs = [g for g in owning(F, "manif::LieGroupBase") if _is_variant_group(g, v)]
        ts = [t for t in owning(F, "manif::TangentBase") if _is_variant_group(t, v)]
        if not gs or not ts:
            rep.broke("no owning LieGroupBase/TangentBase instantiation found in driver %s" % v)
            continue
        G, T = gs[0], ts[0]
        n_groups += 1
        LG, TB = "manif::LieGroupBase", "manif::TangentBase"

        def fail(site, msg, f):
            rep.fail(C.Finding("C04", "R-FWD", "%s:%s" % (G, site), msg, f["file"] if f else None, f["line"] if f else None))

        def term(f, this, atoms, site):
            if f is None:
                rep.broke("anchor vanished: %s (%s)" % (site, G))
                return None
            try:
                return evaluate(F, f, this, atoms)
            except (TE.Unsupported, TE.Raised) as e:
                rep.broke("R-FWD cannot normalise %s for %s: %s" % (site, G, e))
                return None

        canon = {}
        # -- canonical definitions ---------------------------------------------------------
        for name, want in G_DEFS.items():
            operand = "t" if "plus" in name else "Y"
            f = method(F, LG, G, name)
            r = term(f, "X", [operand], "LieGroupBase::" + name)
            if r is None:
                continue
            canon[name] = (r, f)
            nonlocal_n = 1
            n_entries += 1
            rep.obligation(r[0] == want, lambda name=name, r=r, want=want, f=f: C.Finding(
                "C04", "R-FWD.definition", "%s:%s" % (G, name),
                "X.%s(%s) normalises to %s, documented definition is %s" % (name, "t" if "plus" in name else "Y", r[0], want), f["file"], f["line"]))
            # both Jacobian outputs must be produced
            rep.obligation(set(r[1]) == {"J0", "J1"}, lambda name=name, r=r, f=f: C.Finding(
                "C04", "R-FWD.roles", "%s:%s" % (G, name), "optional outputs written: %s (expected both)" % sorted(r[1]), f["file"], f["line"]))
        for name in ("compose", "inverse", "log", "act", "adj"):
            f = method(F, LG, G, name)
            atoms = {"compose": ["Y"], "act": ["v"]}.get(name, [])
            r = term(f, "X", atoms, "LieGroupBase::" + name)
            if r is not None:
                canon[name] = (r, f)
        f = method(F, TB, T, "exp")
        r = term(f, "t", [], "TangentBase::exp")
        if r is not None:
            canon["exp"] = (r, f)
        f = method(F, LG, G, "isApprox")
        r = term(f, "X", ["Y", "eps"], "LieGroupBase::isApprox")
        if r is not None:
            canon["isApprox"] = (r, f)

        def same(site, f, got, want_ret, want_outs=None, perm=None):
            """alias term must equal the canonical member's term (outputs under permutation perm)."""
            nonlocal n_entries
            if got is None:
                return
            n_entries += 1
            rep.obligation(got[0] == want_ret, lambda: C.Finding(
                "C04", "R-FWD.alias", "%s:%s" % (G, site), "%s normalises to %s, canonical member gives %s" % (site, got[0], want_ret),
                f["file"], f["line"]))
            if want_outs is not None:
                for j, tj in got[1].items():
                    cj = perm[j] if perm else j
                    rep.obligation(want_outs.get(cj) == tj, lambda j=j, tj=tj, cj=cj: C.Finding(
                        "C04", "R-FWD.roles", "%s:%s:%s" % (G, site, j),
                        "optional output %s of %s receives %s; the canonical member writes %s to the output of that role" % (j, site, tj, want_outs.get(cj)),
                        f["file"], f["line"]))
                rep.obligation(set((perm[j] if perm else j) for j in got[1]) == set(want_outs), lambda: C.Finding(
                    "C04", "R-FWD.roles", "%s:%s" % (G, site), "alias forwards outputs %s, canonical member has %s" % (sorted(got[1]), sorted(want_outs)),
                    f["file"], f["line"]))

        if not all(k in canon for k in ("rplus", "lplus", "rminus", "lminus", "between", "compose", "inverse", "log", "exp")):
            continue
        # -- LieGroupBase aliases -------------------------------------------------------------
        for alias, can, operand in (("plus", "rplus", "t"), ("minus", "rminus", "Y")):
            f = method(F, LG, G, alias)
            same("X.%s" % alias, f, term(f, "X", [operand], "LieGroupBase::" + alias), canon[can][0][0], canon[can][0][1])
        for alias, can, operand in (("operator+", "rplus", "t"), ("operator-", "rminus", "Y"), ("operator*", "compose", "Y")):
            f = method(F, LG, G, alias)
            same("X %s" % alias, f, term(f, "X", [operand], "LieGroupBase::" + alias), canon[can][0][0])
        f = method(F, LG, G, "lift")
        same("X.lift", f, term(f, "X", [], "LieGroupBase::lift"), canon["log"][0][0], canon["log"][0][1])
        f = method(F, LG, G, "operator==")
        if "isApprox" in canon:
            r = term(f, "X", ["Y"], "LieGroupBase::operator==")
            if r is not None:
                n_entries += 1
                want = canon["isApprox"][0][0].replace(" eps)", " manif::Constants<double>::eps)")
                rep.obligation(r[0] == want, lambda r=r, want=want, f=f: C.Finding(
                    "C04", "R-FWD.alias", "%s:X == Y" % G, "operator== normalises to %s, isApprox(Y) gives %s" % (r[0], want), f["file"], f["line"]))
        # in-place forms: derived() = <by-value result of the canonical member>
        for alias, can, operand in (("operator+=", "rplus", "t"), ("operator*=", "compose", "Y")):
            f = method(F, LG, G, alias)
            r = term(f, "X", [operand], "LieGroupBase::" + alias)
            if r is None:
                continue
            n_entries += 1
            eff = [e for e in r[2] if e[0] == "assign"]
            ok = len(eff) == 1 and eff[0][1] == "X" and eff[0][2] == canon[can][0][0] and r[0] == "X"
            rep.obligation(ok, lambda alias=alias, r=r, f=f, can=can: C.Finding(
                "C04", "R-FWD.inplace", "%s:X %s" % (G, alias),
                "in-place operator performs %s and returns %s; expected the single assignment X = %s" % (r[2], r[0], canon[can][0][0]), f["file"], f["line"]))
        # -- TangentBase (tangent-side forms) -----------------------------------------------------------
        swap = {"J0": "J1", "J1": "J0"}
        for alias, can in (("rplus", "rplus"), ("lplus", "lplus"), ("plus", "lplus")):
            f = method(F, TB, T, alias, p0_has(_short_group(G)))
            same("t.%s(X)" % alias, f, term(f, "t", ["X"], "TangentBase::%s(LieGroup)" % alias), canon[can][0][0], canon[can][0][1], swap)
        f = method(F, TB, T, "operator+", p0_has(_short_group(G)))
        same("t + X", f, term(f, "t", ["X"], "TangentBase::operator+(LieGroup)"), canon["lplus"][0][0])
        f = method(F, TB, T, "retract")
        same("t.retract", f, term(f, "t", [], "TangentBase::retract"), canon["exp"][0][0], canon["exp"][0][1])
        # -- functions.h -------------------------------------------------------------------------------------
        gname = _short_group(G)
        for fname, can, ops in (("rplus", "rplus", ["X", "t"]), ("lplus", "lplus", ["X", "t"]), ("plus", "rplus", ["X", "t"]),
                                ("rminus", "rminus", ["X", "Y"]), ("lminus", "lminus", ["X", "Y"]), ("minus", "rminus", ["X", "Y"]),
                                ("between", "between", ["X", "Y"]), ("compose", "compose", ["X", "Y"]), ("inverse", "inverse", ["X"]),
                                ("log", "log", ["X"]), ("lift", "log", ["X"]), ("exp", "exp", ["t"]), ("retract", "exp", ["t"]),
                                ("act", "act", ["X", "v"])):
            needle = "TangentBase" if ops[0] == "t" else "LieGroupBase"
            oname = _short_group(T) if ops[0] == "t" else gname
            f = free(F, fname, lambda f, needle=needle, oname=oname: f["params"] and needle in f["params"][0].get("cty", "") and oname in f["params"][0].get("cty", "") and "Eigen::Map" not in f["params"][0].get("cty", ""))
            same("manif::%s" % fname, f, term(f, None, ops, "functions.h " + fname), canon[can][0][0], canon[can][0][1])
        rep.sample({"group": G, "definitions": {k: canon[k][0][0] for k in G_DEFS}, "rplus_outputs": canon["rplus"][0][1],
                    "lminus_outputs": canon["lminus"][0][1]}, limit=10)
    rep.floor("groups", n_groups, 8)
    rep.floor("alias_entries", n_entries, 8 * 30)
    rep.rules = [
        "R-FWD.definition: the value term of X.rplus/lplus/rminus/lminus/between, after inlining LieGroupBase/TangentBase down to the per-group vocabulary, equals the documented composition (README table / property statement)",
        "R-FWD.alias: plus/minus, operators + - * == , lift/retract, the tangent-side forms t.rplus(X) t.lplus(X) t.plus(X) t+X and every function of functions.h normalise to the same term as the canonical member",
        "R-FWD.roles: each optional Jacobian of an alias receives exactly the term that the canonical member writes to the output of the same role (tangent-side forms swap the two roles)",
        "R-FWD.inplace: += and *= are the single assignment X = <canonical by-value result>",
    ]
    rep.units = ["%s_double_own_funcs_debug" % v for v in FX.variants()]
    rep.trusted = ["clang 14 overload resolution / CRTP dispatch as recorded in the instantiated AST", "per-group members (compose, inverse, exp, log, ...) are uninterpreted: their own correctness is C01-C03"]
    rep.assumptions = ["numerical corollaries ((X+t)-X = t, X+(Y-X) = Y) are not decided: they depend on exp/log being inverse (C02/C03)"]
    rep.checker_cmd = "manif-sa plugin (mode=funcs) + engine/termeval.py"
    return rep.finish()


def _short_group(G):
    # "manif::SE3<double>" -> "manif::SE3<double"  (enough to identify the parameter type)
    return G.split(">")[0]


def _is_variant_group(g, v):
    name = g.split("<")[0].replace("manif::", "")
    if v in ("SO2", "SE2", "SO3", "SE3", "SE_2_3", "SGal3"):
        return name in (v, v + "Tangent")
    if v.startswith("R"):
        return name in ("Rn", "RnTangent") and g.replace(" ", "").endswith(",%s>" % v[1:])
    if v.startswith("B"):
        return name in ("Bundle", "BundleTangent")
    return False
