"""C09 - optional outputs are transparent; operations are pure and deterministic (DESIGN.md 3/C09)."""
import re

from . import astq as A
from . import common as C
from . import facts as FX
from . import outputs as O
from . import rules_effect as RE

MUTATORS = {"operator=", "operator+=", "operator*=", "operator-=", "operator/=", "operator<<", "setIdentity", "setRandom",
            "setZero", "setVee", "normalize", "quat", "translation", "coeffs", "data", "operator[]", "element", "asSO3",
            "derived", "lin", "ang", "lin2"}
OPERATIONS = {"inverse", "log", "lift", "compose", "act", "adj", "rplus", "lplus", "plus", "rminus", "lminus", "minus", "between",
              "exp", "retract", "hat", "rjac", "ljac", "rjacinv", "ljacinv", "smallAdj", "bracket", "generator", "innerWeights",
              "inner", "weightedNorm", "squaredWeightedNorm", "operator+", "operator-", "operator*", "operator/", "transform", "rotation",
              "translation", "quat", "isometry", "cast", "Identity", "Random", "Zero", "Generator", "InnerWeights", "Bracket", "Vee",
              "interpolate", "interpolate_slerp", "interpolate_cubic", "interpolate_smooth", "average", "average_biinvariant",
              "average_frechet_left", "average_frechet_right", "decasteljau", "isApprox", "operator==", "angle", "real", "imag",
              "x", "y", "z", "w", "t", "vx", "vy", "vz", "linearVelocity", "smoothing_phi"}
OWNING_RET = re.compile(r"^(const )?(manif::(SO2|SE2|SO3|SE3|SE_2_3|SGal3|Rn|Bundle)(Tangent)?<|Eigen::Matrix<|Eigen::Quaternion<|Eigen::Transform<|double$|float$|bool$|int$|unsigned int$|void$|std::vector<)")
# documented to return Eigen expressions (one line of reason each)
EXPR_RETURN_EXEMPT = {
    ("", "operator+"): "operator+(MatrixBase, TangentBase) is declared `-> decltype(v + t.coeffs())` (vector-side convenience overload)",
    ("", "operator-"): "operator-(MatrixBase, TangentBase) is declared `-> decltype(v - t.coeffs())`",
}
REF_FORBIDDEN = {"data", "resize", "conservativeResize", "outerStride", "innerStride", "resizeLike"}


def run(args):
    rep = C.Report("C09", "proof", "non-interference + guard + effect dataflow on every operation with optional outputs")
    rr = O.run(O.default_specs(("own", "map")))
    nbad = 0
    for it in rr.items:
        if it["rule"] in ("R-NI", "R-GUARD", "R-FORWARD", "R-INTERNAL") or (it["rule"] == "R-DA" and "caller" in it["msg"]):
            if args.only and args.only not in it["fn"]:
                continue
            nbad += 1
            rep.fail(O.finding("C09", it))
    rep.ok(max(0, rr.counts["deref"] + rr.counts["returns"] + rr.counts["writes"] - nbad))
    rep.floor("optional_output_params", rr.counts["opt_params"], 900)
    rep.floor("returns_checked_for_interference", rr.counts["returns"], 800)
    # C09.c writes through Ref / optional stay inside the static extent
    fl = FX.get_many(O.default_specs(("own", "map")))
    n_ref_calls = 0
    n_decl = n_ret = 0
    inc = C.REPO.rstrip("/") + "/include/"
    for F in fl:
        for f in F.functions:
            if f["kind"] == "pattern" or not f["file"].startswith(inc):
                continue
            outs = {p["decl"] for p in f["params"] if "opt" in p or "ref" in p}
            if outs:
                for n in A.walk(f):
                    if n.get("k") == "CXXMemberCallExpr" and str(n.get("cls", "")).startswith("Eigen::"):
                        nm = A.short(n.get("fn"))
                        _, obj, _ = A.call_parts(n)
                        root = RE._root(obj) if obj is not None else None
                        # object reached through an output parameter?
                        through = False
                        for x in A.walk(obj) if obj is not None else []:
                            if x.get("k") == "DeclRefExpr" and x.get("decl") in outs:
                                through = True
                        if through:
                            n_ref_calls += 1
                            rep.obligation(nm not in REF_FORBIDDEN, lambda f=f, n=n, nm=nm: C.Finding(
                                "C09", "R-REFWRITE", "%s@%s" % (f["name"], nm),
                                "raw access '%s()' on a caller-supplied output: stride-unaware writes can leave the bound block" % nm,
                                f["file"], n.get("ln")))
            # C09.e / C09.f on operations
            if f["short"] in OPERATIONS and f.get("cls") and re.match(r"manif::\w*(Base)$", f["cls"] or ""):
                if f["short"] not in MUTATORS or f["short"] in ("translation", "quat"):
                    if f["short"] in ("translation", "quat") and f["params"]:
                        continue  # setter overloads
                    n_decl += 1
                    rep.obligation(bool(f.get("const") or f.get("static")), lambda f=f: C.Finding(
                        "C09", "R-CONSTAPI", f["name"], "non-mutating operation is neither const nor static: it may modify its receiver",
                        f["file"], f["line"]))
                    for p in f["params"]:
                        if "opt" in p or "ref" in p:
                            continue
                        cty = p.get("cty", "")
                        if p.get("isref") and not p.get("constq") and "&&" not in cty:
                            rep.fail(C.Finding("C09", "R-CONSTAPI", "%s(%s)" % (f["name"], p["name"]),
                                               "operand taken by non-const reference", f["file"], f["line"]))
                        else:
                            rep.ok()
                    cret = f.get("cret", "")
                    n_ret += 1
                    ok = bool(OWNING_RET.match(cret)) and not cret.endswith("&")
                    rep.obligation(ok, lambda f=f, cret=cret: C.Finding(
                        "C09", "R-OWNRET", f["name"], "operation returns '%s', which can alias an operand (expression template / reference / view)" % cret,
                        f["file"], f["line"]))
    rep.floor("const_api_declarations", n_decl, 600)
    rep.floor("owning_return_types", n_ret, 600)
    rep.floor("eigen_calls_on_outputs", n_ref_calls, 300)
    # in-place operators materialise the result before assigning:  derived() = <call>
    n_inplace = 0
    for F in fl:
        for f in F.functions:
            if f["kind"] == "pattern" or f.get("cls") != "manif::LieGroupBase" or f["short"] not in ("operator+=", "operator*="):
                continue
            n_inplace += 1
            body = f.get("body") or {}
            stmts = body.get("ch") or []
            ok = False
            if stmts:
                s0 = A.strip(stmts[0])
                if isinstance(s0, dict) and s0.get("k") == "CXXOperatorCallExpr" and s0.get("op") == "=":
                    rhs = A.strip(s0["ch"][2])
                    # rhs must be a call returning by value (a temporary LieGroup), not an expression on *this
                    ok = isinstance(rhs, dict) and rhs.get("k") in ("CXXMemberCallExpr", "CXXConstructExpr", "CallExpr") and not F.ty(rhs).endswith("&")
            rep.obligation(ok, lambda f=f: C.Finding("C09", "R-INPLACE", f["name"],
                                                     "in-place operator is not `derived() = <by-value result>`: the operand may be read after it was partly overwritten",
                                                     f["file"], f["line"]))
    rep.floor("inplace_operators", n_inplace, 16)
    # C09.d purity
    RE.check(rep, "C09", fl)
    rep.section("interpreter", **dict(rr.counts))
    rep.section("api", const_api_declarations=n_decl, return_types=n_ret, eigen_calls_on_outputs=n_ref_calls, inplace_ops=n_inplace)
    rep.rules = [
        "R-NI: taint analysis per function - nothing assigned in a region control-dependent on `if (J_a)` flows into the returned value or into another output; returns under complementary guards must be term-equal after erasing optional arguments; the one table exemption (LieGroupBase::lminus) is verified by term equality of the two arms",
        "R-GUARD: no dereference of a disengaged optional",
        "R-DA(3): an output is never read before it was fully written in the same activation (result independent of the caller's buffer)",
        "R-REFWRITE: no data()/resize()/stride arithmetic on a caller-supplied Ref: writes go through Eigen's stride-aware accessors within the static extent (R-BLOCK, reported under C05)",
        "R-CONSTAPI / R-OWNRET / R-INPLACE: operations are const (or static), take operands by const&/value, return owning types by value; `+=`/`*=` assign a materialised temporary",
        "R-EFFECT (a)-(f): no hidden state (see C14)",
    ]
    rep.units = rr.tags
    rep.trusted = ["clang 14 AST", "Eigen kernels write only their destination", "tl::optional"]
    rep.checker_cmd = "manif-sa plugin (mode=funcs) + engine/rules_out.py + engine/rules_effect.py"
    return rep.finish()
