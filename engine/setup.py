"""setup_cmd: build the clang plugin from sources on disk (offline)."""
import glob
import os
import subprocess
import sys

from . import common as C


def run():
    C.ensure_dir(C.BUILD)
    srcs = sorted(glob.glob(os.path.join(C.VERIF, "tools", "manif_sa", "*.cc")))
    cxxflags = subprocess.check_output(["llvm-config-14", "--cxxflags"]).decode().split()
    objs = []
    procs = []
    for s in srcs:
        o = os.path.join(C.BUILD, os.path.basename(s)[:-3] + ".o")
        objs.append(o)
        procs.append((s, subprocess.Popen([C.CLANGXX] + cxxflags + ["-fno-rtti", "-fPIC", "-O1", "-c", s, "-o", o])))
    bad = [s for s, p in procs if p.wait() != 0]
    if bad:
        print("setup: failed to compile", bad)
        return 1
    tmp = C.PLUGIN_SO + ".new"
    rc = subprocess.call([C.CLANGXX, "-shared", "-o", tmp] + objs)
    if rc != 0:
        return rc
    os.replace(tmp, C.PLUGIN_SO)       # atomic: a compiler already running keeps the old file
    print("setup: built", C.PLUGIN_SO)
    return 0
