"""R-ROUND: first-order floating-point error analysis of a closed-form arm (DESIGN.md section 10.11).

Abstract domain: every sub-expression of the symbolic value that R-JET's interpreter (jeteval.py) built for an
observable in the closed-form world carries a pair (m, e): its exact magnitude m at the switch-over rotation
magnitude th = th_s, and a first-order bound e of the absolute rounding error of evaluating it in binary floating
point with unit round-off u (the standard model fl(a op b) = (a op b)(1 + d), |d| <= u; libm calls likewise):

    literal, input        e = 0 (integers, dyadic literals, inputs - th included: the function's own rotation
                          magnitude is what its result is a function of) or u*m (other literals)
    a + b + ...           e = sum e_i + u * |sum|; but when |sum| + (errors the operands inherited before their own
                          final rounding) is below a quarter of the rounding quantum u * max m_i, the operands are
                          roundings of reals that agree to far below one quantum: generically they are the same
                          number, the computed sum is 0 and e = |sum| + inherited.  (The needle inputs at which two
                          such reals straddle a rounding boundary - a fraction |sum|/quantum of all inputs - are
                          deliberately not counted: they cannot be exhibited without a search; see DESIGN 10.11.)
                          The order of the partial sums is not modelled (sympy flattens sums): best order assumed.
    a * b * ...           e = sum_i e_i * prod_{j != i} m_j + (n-1) * u * m   (powers of two are exact factors)
    a ** n (integer n)    e = |n| * m_a**(n-1) * e_a + u * m          (n < 0: a division)
    sqrt a                e = e_a / (2 sqrt m_a) + u * m
    f(a), f in sin cos tan asin acos atan exp log
                          e = |f'(a)| * e_a + u * m
    atan2(y, x)           e = (m_x e_y + m_y e_x) / (x^2 + y^2) + u * m

Opaque inputs (translation-like coefficients) take fixed generic positive values of order one, matrix symbols of
declared th-order k the value g * th^k: only cancellations that are structural in th survive, which is the point -
(1 - cos th)/th^2 keeps u/th^2, an accidental x*a - y*a does not arise.  Exact magnitudes are computed with mpmath at
60 digits, so the magnitudes themselves suffer no cancellation.  Nothing of the library is executed: the input is
the expression tree the interpreter produced from the AST; the result is a number attached to that tree.

The model is first-order and worst-case in the signs of the individual errors, not in their size (each rounding is
taken at its full unit round-off, once).  It is therefore used with a wide margin: an observable is reported only
when the bound exceeds the accuracy the property statement itself names (relative error 1e-6 in double against the
O(1) scale of the translation-like inputs)."""
import mpmath as mp
import sympy as sp

mp.mp.dps = 60

U = {"double": 2.0 ** -53, "float": 2.0 ** -24}
GENERIC = [0.83, 1.27, 0.71, 1.13, 0.94, 1.39, 0.77, 1.21, 1.06, 0.88, 1.31, 0.97]


class NotModelled(Exception):
    pass


def _generic_env(expr, th, th_s, orders):
    env = {}
    syms = sorted(expr.free_symbols, key=str)
    i = 0
    for s in syms:
        if s == th:
            continue
        g = mp.mpf(GENERIC[i % len(GENERIC)])
        i += 1
        if not s.is_commutative:
            env[s] = (g * mp.mpf(th_s) ** orders.get(str(s), 0), True)
        else:
            env[s] = (g, False)
    return env


_D1 = {
    "sin": lambda x: abs(mp.cos(x)), "cos": lambda x: abs(mp.sin(x)), "tan": lambda x: 1 + mp.tan(x) ** 2,
    "asin": lambda x: 1 / mp.sqrt(1 - x * x), "acos": lambda x: 1 / mp.sqrt(1 - x * x), "atan": lambda x: 1 / (1 + x * x),
    "exp": lambda x: mp.exp(x), "log": lambda x: 1 / abs(x),
}
_F = {"sin": mp.sin, "cos": mp.cos, "tan": mp.tan, "asin": mp.asin, "acos": mp.acos, "atan": mp.atan, "exp": mp.exp, "log": mp.log}


def _pow2(r):
    p, q = abs(int(r.p)), int(r.q)
    return p != 0 and p & (p - 1) == 0 and q & (q - 1) == 0


def bound(expr, th, th_s, orders, scalar="double"):
    """(value, abs_error_bound, worst) of evaluating `expr` at th = th_s; worst = (cancellation ratio, str(sub-expression))
    of the sum that loses the most leading digits (for the report)."""
    u = mp.mpf(U[scalar])
    env = _generic_env(expr, th, th_s, orders)
    worst = [mp.mpf(0), ""]
    ths = mp.mpf(th_s)

    def note(share, e):
        if share > worst[0]:
            worst[0], worst[1] = share, str(e)[:90]

    def go(e):
        """-> (exact value, total error bound, share of it that is the node's own final rounding)"""
        z = mp.mpf(0)
        if e.is_Integer:
            return mp.mpf(int(e)), z, z
        if e.is_Rational:
            v = mp.mpf(int(e.p)) / int(e.q)
            q = int(e.q)
            r = z if q & (q - 1) == 0 else u * abs(v)
            return v, r, r
        if e.is_Float:
            v = mp.mpf(str(e))
            return v, u * abs(v), u * abs(v)
        if e == sp.pi:
            return mp.pi, u * mp.pi, u * mp.pi
        if e.is_Symbol:
            if e == th:
                return ths, z, z        # the rotation magnitude the function works with is its input
            v, is_mat = env[e]
            return v, z, z
        if e.is_Add:
            parts = [go(a) for a in e.args]
            s = sum(p[0] for p in parts)
            big = max(abs(p[0]) for p in parts)
            inherited = sum(p[1] - p[2] for p in parts)
            quantum = u * big
            if abs(s) < big:
                note(big / abs(s) if s != 0 else mp.inf, e)
            if abs(s) + inherited < quantum / 4:
                # the exact operands agree to far below one rounding quantum of their magnitude: their roundings coincide
                # generically and the computed sum is 0 - the error is the (tiny) exact value itself
                return s, abs(s) + inherited, z
            last = u * abs(s)
            return s, sum(p[1] for p in parts) + last, last
        if e.is_Mul:
            parts = [go(a) for a in e.args]
            prod = mp.mpf(1)
            for p in parts:
                prod *= p[0]
            err = z
            inexact = 0
            for i, p in enumerate(parts):
                rest = mp.mpf(1)
                for j, q in enumerate(parts):
                    if j != i:
                        rest *= abs(q[0])
                err += p[1] * rest
                # multiplying by a power of two is exact
                m = abs(p[0])
                if not (e.args[i].is_Rational and _pow2(e.args[i])):
                    inexact += 1
            last = u * abs(prod) if inexact > 1 else sum(p[2] * abs(prod / p[0]) for p in parts if p[0] != 0)
            return prod, err + max(inexact - 1, 0) * u * abs(prod), last
        if e.is_Pow:
            b, n = e.args
            vb, eb, _ = go(b)
            if n.is_Integer:
                k = int(n)
                if vb == 0:
                    raise NotModelled("power of an exact zero: %s" % e)
                v = vb ** k
                return v, abs(k) * abs(vb) ** (k - 1) * eb + u * abs(v), u * abs(v)
            if n.is_Rational and n.q == 2:
                if vb <= 0:
                    raise NotModelled("root of a non-positive magnitude: %s" % e)
                r = mp.sqrt(vb)
                v = r ** int(n.p)
                return v, abs(int(n.p)) * abs(r) ** (int(n.p) - 1) * (eb / (2 * r) + u * r) + u * abs(v), u * abs(v)
            raise NotModelled("power %s" % e)
        if isinstance(e, sp.Abs):
            return tuple(abs(x) if i == 0 else x for i, x in enumerate(go(e.args[0])))
        fn = getattr(e.func, "__name__", str(e.func))
        if fn in _F and len(e.args) == 1:
            va, ea, _ = go(e.args[0])
            v = _F[fn](va)
            return v, _D1[fn](va) * ea + u * abs(v), u * abs(v)
        if fn == "atan2":
            (vy, ey, _), (vx, ex, _) = go(e.args[0]), go(e.args[1])
            v = mp.atan2(vy, vx)
            return v, (abs(vx) * ey + abs(vy) * ex) / (vx * vx + vy * vy) + u * abs(v), u * abs(v)
        if fn == "sign":
            va = go(e.args[0])[0]
            return mp.sign(va), z, z
        raise NotModelled("%s" % fn)

    v, er, _ = go(expr)
    return float(v), float(er), (float(worst[0]), worst[1])
