"""C17 - De Casteljau: argument checks, counted loops, guarded unsigned subtraction (DESIGN.md 3/C17).
Window maximality, curve values and the index-range clause for t*(degree-1)+n are NOT decided."""
import re

from . import astq as A
from . import common as C
from . import facts as FX
from .check_c16 import counted_loop, loops_of, refs
from .sexp import sexp

# property preconditions (its own statement): N >= 3, 2 <= degree <= N, k_interp >= 1
PRECONDITIONS = {"degree": 2, "(size trajectory)": 3, "k_interp": 1}

# unsigned subtractions accepted without a syntactic guard: one line of reason each
SUB_EXEMPT = {
    "(- (size Qs) 1)": "Qs holds one segment's control points: `degree` >= 2 of them are pushed before the passes and each of the degree-1 passes removes exactly one (size stays >= 1 while the loop runs)",
}


def term(n, defs):
    """sexp with local constant definitions substituted (last_pts_idx := n_segments*(degree-1))."""
    n = A.strip(n)
    if isinstance(n, dict) and n.get("k") == "DeclRefExpr" and n.get("decl") in defs:
        return defs[n["decl"]]
    if isinstance(n, dict) and n.get("k") == "BinaryOperator":
        return "(%s %s %s)" % (n["op"], term(n["ch"][0], defs), term(n["ch"][1], defs))
    if isinstance(n, dict) and n.get("k") in ("CXXStaticCastExpr", "CXXFunctionalCastExpr", "CStyleCastExpr") and n.get("ch"):
        return term(n["ch"][0], defs)
    return sexp(n)


def facts_from(cond, defs, out, positive=True):
    c = A.strip(cond)
    if not isinstance(c, dict):
        return
    if c.get("k") == "UnaryOperator" and c.get("op") == "!":
        facts_from(c["ch"][0], defs, out, not positive)
        return
    if c.get("k") == "BinaryOperator" and c.get("op") == "&&" and positive:
        facts_from(c["ch"][0], defs, out, True)
        facts_from(c["ch"][1], defs, out, True)
        return
    if c.get("k") == "BinaryOperator" and c.get("op") == "||" and not positive:
        facts_from(c["ch"][0], defs, out, False)
        facts_from(c["ch"][1], defs, out, False)
        return
    if c.get("k") == "BinaryOperator" and c.get("op") in ("<", "<=", ">", ">="):
        a, b = term(c["ch"][0], defs), term(c["ch"][1], defs)
        op = c["op"]
        if not positive:
            op = {"<": ">=", "<=": ">", ">": "<=", ">=": "<"}[op]
        # normalise to  small <= big  or  small < big
        if op in (">", ">="):
            a, b, op = b, a, {">": "<", ">=": "<="}[op]
        out.add((a, op, b))


def num(s):
    return int(s) if re.fullmatch(r"-?\d+", s) else None


def lower_bound(t, facts):
    """largest c such that  t >= c  follows from a single fact or precondition."""
    lb = PRECONDITIONS.get(t, 0)
    for (a, op, b) in facts:
        if b == t and num(a) is not None:
            lb = max(lb, num(a) + (1 if op == "<" else 0))
    return lb


def proves_ge(a, b, facts):
    """a >= b from the collected facts (syntactic)."""
    if a == b:
        return True
    if num(b) is not None:
        if num(a) is not None:
            return num(a) >= num(b)
        if lower_bound(a, facts) >= num(b):
            return True
        m = re.fullmatch(r"\(- (.+) (\d+)\)", a)
        if m and lower_bound(m.group(1), facts) >= num(b) + int(m.group(2)):
            return True
        return False
    for (x, op, y) in facts:
        if x == b and y == a:
            return True
    return False


def analyse(rep, F, f, site):
    body = f.get("body") or {}
    stmts = body.get("ch") or []
    # (a) the three argument checks come first
    checks = []
    for s in stmts:
        if s.get("k") == "NullStmt":
            continue
        if s.get("k") == "IfStmt" and any(x.get("noret") for x in A.walk(s.get("then"))):
            checks.append(s)
            continue
        break
    conds = " ".join(sexp(c.get("cond")) for c in checks)
    pn = [p["name"] for p in f["params"]] + ["?", "?", "?"]
    need = {"trajectory size": ("size %s" % pn[0]) in conds and "2" in conds, "degree <= size": pn[1] in conds, "k_interp > 0": pn[2] in conds}
    global PRECONDITIONS
    PRECONDITIONS = {pn[1]: 2, "(size %s)" % pn[0]: 3, pn[2]: 1}
    for what, ok in need.items():
        rep.obligation(ok, lambda what=what: C.Finding("C17", "R-MPT.args", "%s:%s" % (site, what), "argument check '%s' does not precede the index arithmetic" % what, f["file"], f["line"]))
    # (b) counted loops
    for l in loops_of(body):
        ok, why = counted_loop(l)
        rep.obligation(ok, lambda l=l, why=why: C.Finding("C17", "R-LOOP", "%s@loop:%s" % (site, l.get("ln")), "loop is not a counted loop: " + why, f["file"], l.get("ln")))
        rep.sample({"loop": why, "line": l.get("ln")}, limit=12)
    # (c) guarded unsigned subtraction: structured walk collecting dominating facts
    defs = {}
    n_sub = [0]

    def walk_expr(e, facts):
        for x in A.walk(e):
            if x.get("k") == "BinaryOperator" and x.get("op") == "-" and "unsigned" in F.ty(x):
                n_sub[0] += 1
                a, b = term(x["ch"][0], defs), term(x["ch"][1], defs)
                whole = "(- %s %s)" % (a, b)
                raw = "(- %s %s)" % (sexp(x["ch"][0]), sexp(x["ch"][1]))
                if whole in SUB_EXEMPT or raw in SUB_EXEMPT:
                    rep.ok()
                    rep.notes.append("exempt unsigned subtraction %s: %s" % (raw, SUB_EXEMPT.get(whole) or SUB_EXEMPT.get(raw)))
                    continue
                ok = proves_ge(a, b, facts)
                rep.obligation(ok, lambda x=x, raw=raw: C.Finding(
                    "C17", "R-LIN.unsigned-wrap", "decasteljau:%s" % raw.replace(" ", ""),
                    "unsigned subtraction %s is not dominated by a check that makes it non-negative: it wraps around for some admissible (N, degree, closed) and the loop / index it feeds runs out of bounds" % raw,
                    f["file"], x.get("ln")))

    def walk_stmt(s, facts):
        if not isinstance(s, dict):
            return facts
        k = s.get("k")
        if k == "CompoundStmt":
            cur = set(facts)
            for c in s.get("ch") or []:
                cur = walk_stmt(c, cur)
            return facts if s is not body else cur
        if k == "IfStmt":
            walk_expr(s.get("cond"), facts)
            tf = set(facts)
            facts_from(s.get("cond"), defs, tf, True)
            walk_stmt(s.get("then"), tf)
            ef = set(facts)
            facts_from(s.get("cond"), defs, ef, False)
            if s.get("else"):
                walk_stmt(s.get("else"), ef)
            then_dead = any(x.get("noret") for x in A.walk(s.get("then")))
            return ef if then_dead else facts
        if k == "ForStmt":
            cur = walk_stmt(s.get("init"), set(facts))
            walk_expr(s.get("cond"), cur)
            bf = set(cur)
            facts_from(s.get("cond"), defs, bf, True)
            walk_stmt(s.get("body"), bf)
            walk_expr(s.get("inc"), bf)
            return facts
        if k == "CXXForRangeStmt":
            walk_expr(s.get("range"), facts)
            walk_stmt(s.get("body"), set(facts))
            return facts
        if k == "DeclStmt":
            for d in s.get("decls") or []:
                if d.get("k") == "VarDecl" and d.get("init") is not None:
                    walk_expr(d["init"], facts)
                    if d.get("constq") and re.search(r"unsigned|int|long", F.ty(d)):
                        i = A.strip(d["init"])
                        if isinstance(i, dict) and i.get("k") in ("BinaryOperator", "DeclRefExpr", "CXXMemberCallExpr", "CXXStaticCastExpr"):
                            defs[d["decl"]] = term(i, defs)
            return facts
        walk_expr(s, facts)
        return facts

    walk_stmt(body, set())
    return n_sub[0]


def window_index(rep, F, f, site):
    """R-LIN.window: in the loop nest that collects the control points, window t takes trajectory[t*(degree-1) + n],
    n = 0..degree-1 (consecutive windows share exactly one point).  Decided by exact evaluation of the subscript for
    degree = 2..6 with symbolic loop counters (local integer definitions substituted)."""
    import sympy as sp
    from . import scalar_eval as SE
    body = f.get("body") or {}
    stmts = body.get("ch") or []
    pn = [p for p in f["params"]]
    if len(pn) < 2:
        rep.broke("anchor vanished: parameters of decasteljau")
        return 0
    traj, deg = pn[0]["decl"], pn[1]["decl"]
    # the first top-level loop nest whose innermost body takes the address of trajectory[...]
    nest = None
    for s_ in stmts:
        if s_.get("k") == "ForStmt":
            inner = [x for x in A.walk(s_.get("body")) if x.get("k") == "ForStmt"]
            subs = [x for x in A.walk(s_) if x.get("k") in ("CXXOperatorCallExpr",) and x.get("op") == "[]" and refs(x.get("ch", [None, None])[1] if len(x.get("ch", [])) > 1 else None, {traj})]
            if inner and subs:
                nest = (s_, inner[0], subs)
                break
    if nest is None:
        rep.broke("anchor vanished: the loop nest collecting the control points in decasteljau")
        return 0
    outer, inner, subs = nest

    def counter(loop):
        init = loop.get("init") or {}
        for d in init.get("decls") or []:
            if d.get("k") == "VarDecl":
                return d["decl"]
        return None
    ct, cn = counter(outer), counter(inner)
    if ct is None or cn is None:
        rep.broke("R-LIN.window: loop counters of the control-point loop nest not found")
        return 0
    n = 0
    t_, n_ = sp.Symbol("t", integer=True, nonnegative=True), sp.Symbol("n", integer=True, nonnegative=True)
    for d in range(2, 7):
        ev = SE.ScalarEval(F)
        env = {deg: sp.Integer(d), ct: t_, cn: n_}
        ev.run_straight([x for x in stmts if x.get("k") == "DeclStmt"], env)
        env.update({deg: sp.Integer(d), ct: t_, cn: n_})
        inits = {id(outer.get("init")), id(inner.get("init"))}
        ev.run_straight([x for x in A.walk(outer.get("body")) if x.get("k") == "DeclStmt" and id(x) not in inits], env)   # locals of the nest
        env.update({deg: sp.Integer(d), ct: t_, cn: n_})
        for sub in subs:
            idx = sub["ch"][2] if len(sub.get("ch", [])) > 2 else None
            try:
                val = sp.expand(ev.ev(idx, env))
            except (SE.Unknown, SE.Thrown) as e:
                rep.broke("R-LIN.window cannot evaluate the subscript at line %s for degree %d: %s" % (sub.get("ln"), d, e))
                continue
            want = sp.expand(t_ * (d - 1) + n_)
            n += 1
            rep.obligation(sp.simplify(val - want) == 0, lambda d=d, val=val, want=want, sub=sub: C.Finding(
                "C17", "R-LIN.window", "%s:window-index(degree=%d)" % (site.split("{")[0], d),
                "for degree %d window t collects trajectory[%s] instead of trajectory[%s]: consecutive windows do not share their end point" % (d, val, want),
                f["file"], sub.get("ln")))
    return n


def run(args):
    rep = C.Report("C17", "other", "must-pass-through argument checks, counted loops, guarded-unsigned-subtraction rule on decasteljau()")
    n = 0
    nsub = 0
    nwin = 0
    for v in FX.variants():
        F = FX.get(v)
        f = next((g for g in F.functions if g["kind"] == "inst" and g["short"] == "decasteljau" and g["file"].endswith("algorithms/decasteljau.h")), None)
        if f is None:
            rep.broke("anchor vanished: decasteljau instantiation in driver %s" % v)
            continue
        n += 1
        nsub += analyse(rep, F, f, "decasteljau{%s}" % v)
        nwin += window_index(rep, F, f, "decasteljau{%s}" % v)
    rep.floor("instantiations", n, 8)
    rep.floor("unsigned_subtractions", nsub, 8 * 7)
    rep.floor("window_index_evaluations", nwin, 8 * 5)
    rep.rules = [
        "R-MPT.args: the three argument checks (more than two points, degree <= N, k_interp > 0) precede all index arithmetic",
        "R-LOOP: every loop is a counted loop whose counter and bound are not modified in its body (termination, given wrap-free bounds)",
        "R-LIN.window: window t of the control-point loop nest takes trajectory[t*(degree-1)+n], n < degree - decided by exact evaluation of the subscript for degree 2..6 with symbolic loop counters (consecutive windows share one point; index <= (t+1)(degree-1))",
        "R-LIN.unsigned-wrap: every unsigned subtraction a-b is dominated by a check / branch / loop condition, or a property precondition (N>=3, 2<=degree<=N, k>=1), that syntactically yields a >= b (after substituting const local definitions); exemptions are a table with one line of reason each",
    ]
    rep.units = ["%s_double_own_funcs_debug" % v for v in FX.variants()]
    rep.trusted = ["clang AST", "the exemption table of engine/check_c17.py"]
    rep.assumptions = ["NOT decided: maximal number of windows, index range of t*(degree-1)+n, curve values at window ends, degree-2 = piecewise geodesic"]
    rep.checker_cmd = "manif-sa plugin (mode=funcs) + engine/check_c17.py"
    return rep.finish()
