"""R-JET engine (DESIGN.md section 2): the two arms of a precision switch must meet.

The function body is evaluated twice in a small algebra domain - scalar sympy expressions in
the rotation magnitude th (> 0) and opaque parameters, times non-commutative symbols for
matrices with a declared th-order (W = th^ has order 1) - once with every switch resolved to its
small-angle side (world S) and once to its closed-form side (world L).  Observables (returned
value, cells / blocks written, scalars live at exit) are then compared as truncated series in th
at the switch-over value th_s = eps^(1/p).  Nothing is executed numerically; literals are exact.
"""
import re

import sympy as sp

from . import astq as A
from .scalar_eval import literal
from .sexp import sexp

TH = sp.Symbol("th", positive=True)
EPS = sp.Symbol("eps", positive=True)


class Unknown(Exception):
    pass


class Stop(Exception):
    """early `return` inside the function (value may be None)."""

    def __init__(self, val):
        self.val = val


def nc(name):
    return sp.Symbol(name, commutative=False)


class World:
    def __init__(self, small, signs=None, at=None, theta=None, eps_val=None):
        self.small = small          # True: small-angle side of every precision switch
        self.signs = signs or {}    # decisions for sign conditions: sexp(cond) -> bool
        self.at = at                # a fixed value of TH: every comparison is decided by exact substitution
        self.theta = theta          # a rotation magnitude (float): each precision switch is on its small side iff theta is
        self.eps_val = eps_val      # below that switch's own switch-over (mixed worlds between two switch-overs; R-ROUND)


class JetEval:
    """seeds: callable(node, self) -> sympy value or None, giving meaning to accessor calls."""

    def __init__(self, F, f, world, seeds):
        self.F, self.f, self.world, self.seeds = F, f, world, seeds
        self.env = {}
        self.targets = {}     # canonical lvalue key -> value (matrix blocks / cells / outputs)
        self.switches = []    # (line, quantity, then_is_small)
        self.sign_conds = []  # sexp of conditions that needed a sign decision
        self.orders = {}      # nc symbol name -> th-order
        self.divisions = []   # denominators met in this world
        self.far_switches = []  # switches on quantities that do not vanish at th = 0
        self.notes = []

    # ------------------------------------------------------------------ helpers
    def mat_symbol(self, name, order=0):
        s = nc(name)
        self.orders.setdefault(name, order)
        return s

    def key_of(self, n):
        """Canonical key of an lvalue access chain (blocks / cells of locals and outputs)."""
        n = A.strip(n)
        return sexp(n).replace("(noalias ", "(").replace(" )", ")")

    def is_matrix(self, n):
        return isinstance(n, dict) and bool(n.get("dim")) and tuple(n["dim"]) != (1, 1)

    # ------------------------------------------------------------------ expressions
    def ev(self, n):
        n = A.strip(n)
        if not isinstance(n, dict):
            raise Unknown("null expression")
        k = n.get("k")
        if k == "IntegerLiteral":
            return sp.Integer(n["v"])
        if k == "FloatingLiteral":
            return literal(n)
        if k == "CXXBoolLiteralExpr":
            return sp.true if n["v"] else sp.false
        if k == "DeclRefExpr":
            d = n.get("decl")
            if d in self.env:
                return self.env[d]
            s = self.seeds(n, self)
            if s is not None:
                return s
            if n.get("name") == "eps" or str(n.get("qn", "")).endswith("::eps"):
                return EPS
            if n.get("name") == "eps_sqrt" or str(n.get("qn", "")).endswith("::eps_sqrt"):
                return sp.sqrt(EPS)
            if "iv" in n:
                return sp.Integer(n["iv"])
            if self.is_matrix(n):
                return self.mat_symbol("M[%s]" % n.get("name"))
            return sp.Symbol("p[%s]" % n.get("name"), real=True)
        if k in ("CXXFunctionalCastExpr", "CXXStaticCastExpr", "CStyleCastExpr"):
            return self.ev((n.get("ch") or [None])[0])
        if k == "UnaryOperator":
            v = self.ev(n["ch"][0])
            op = n.get("op")
            if op == "-":
                return -v
            if op in ("+", "*", "&"):
                return v
            if op == "!":
                return ("not", v) if isinstance(v, tuple) else sp.Not(v)
            raise Unknown("unary %s" % op)
        if k == "BinaryOperator":
            op = n.get("op")
            if op == "=":
                return self.assign(n["ch"][0], self.ev(n["ch"][1]))
            a, b = self.ev(n["ch"][0]), self.ev(n["ch"][1])
            r = self.binop(op, a, b)
            if isinstance(r, tuple) and r[0] == "cmp":
                r = r + (n,)          # remember the node: the comparison may be used as a number ((0 < x) - (x < 0))
            return r
        if k == "CompoundAssignOperator":
            op = n.get("op")[0]
            cur = self.ev(n["ch"][0])
            return self.assign(n["ch"][0], self.binop(op, cur, self.ev(n["ch"][1])))
        if k == "ConditionalOperator":
            c = self.cond(n["ch"][0])
            return self.ev(n["ch"][1] if c else n["ch"][2])
        if k == "MemberExpr":
            s = self.seeds(n, self)
            if s is not None:
                return s
            raise Unknown("member %s" % n.get("name"))
        if k in A.CALL_KINDS:
            return self.call(n)
        if k in ("CXXStdInitializerListExpr", "InitListExpr") and n.get("ch"):
            return [self.ev(c) for c in n["ch"]]
        raise Unknown(k)

    def as_number(self, x):
        """a comparison used arithmetically is 1 / 0 in this world"""
        if isinstance(x, tuple) and x[0] in ("cmp", "and", "or", "not"):
            node = x[4] if x[0] == "cmp" and len(x) > 4 else None
            return sp.Integer(1) if self.decide(x, node) else sp.Integer(0)
        return x

    def binop(self, op, a, b):
        if op in ("+", "-", "*", "/"):
            a, b = self.as_number(a), self.as_number(b)
        if op == "+":
            return a + b
        if op == "-":
            return a - b
        if op == "*":
            return a * b
        if op == "/":
            self.divisions.append(b)
            return a / b
        if op in ("<", ">", "<=", ">=", "==", "!="):
            return ("cmp", op, a, b)
        if op == "&&":
            return ("and", a, b)
        if op == "||":
            return ("or", a, b)
        raise Unknown("binary %s" % op)

    def assign(self, lhs, val):
        l = A.strip(lhs)
        if isinstance(l, dict) and l.get("k") == "DeclRefExpr":
            self.env[l["decl"]] = val
            return val
        self.targets[self.key_of(l)] = val
        return val

    def call(self, n):
        s = self.seeds(n, self)
        if s is not None:
            return s
        k = n.get("k")
        fn, obj, args = A.call_parts(n)
        name = A.short(fn) if fn else ""
        cls = str(n.get("cls", ""))
        # optional outputs are engaged
        if cls == "tl::optional":
            if name in ("operator bool", "has_value"):
                return sp.true
            if k == "CXXOperatorCallExpr" and n.get("op") in ("*", "->"):
                o = A.strip(obj)
                return ("lvalue", "*" + (o.get("name") if isinstance(o, dict) else "?"))
            if k in ("CXXConstructExpr", "CXXTemporaryObjectExpr"):
                return self.ev(args[0]) if args else None
        if name in ("sin", "cos", "sqrt", "abs", "acos", "asin", "atan", "tan") and len(args) == 1 and not cls:
            return {"sin": sp.sin, "cos": sp.cos, "sqrt": sp.sqrt, "abs": sp.Abs, "acos": sp.acos, "asin": sp.asin,
                    "atan": sp.atan, "tan": sp.tan}[name](self.ev(args[0]))
        if name == "atan2" and len(args) == 2 and not cls:
            return sp.Function("atan2")(self.ev(args[0]), self.ev(args[1]))
        if k == "CXXOperatorCallExpr":
            op = n.get("op")
            if op in ("=", "+=", "-=", "*=", "/="):
                rhs = self.ev(args[0])
                key = self.lvalue_key(obj)
                if key is None:
                    raise Unknown("assignment to %s" % sexp(obj)[:60])
                if op == "=":
                    val = rhs
                else:
                    cur = self.read_key(key, obj)
                    val = self.binop(op[0], cur, rhs)
                if key[0] == "var":
                    self.env[key[1]] = val
                else:
                    self.targets[key[1]] = val
                return val
            if op in ("+", "-", "*", "/"):
                vals = ([self.ev(obj)] if obj is not None else []) + [self.ev(a) for a in args]
                if len(vals) == 1:
                    return -vals[0] if op == "-" else vals[0]
                return self.binop(op, vals[0], vals[1])
            if op in ("()", "[]"):
                key = self.lvalue_key(n)
                return self.read_key(key, n)
            if op == "<<":
                raise Unknown("comma initialiser")
        if k == "CXXMemberCallExpr" and cls.startswith("Eigen::"):
            if name in ("noalias", "derived", "eval", "cast"):
                return self.ev(obj)
            if name == "transpose":
                v = self.ev(obj)
                return transpose(v, self)
            if name in ("setIdentity", "setZero"):
                key = self.lvalue_key(obj)
                val = sp.Integer(1) if name == "setIdentity" else sp.Integer(0)
                if key[0] == "var":
                    self.env[key[1]] = val
                else:
                    self.targets[key[1]] = val
                return val
            if name == "toDenseMatrix":
                return self.ev(obj)
            key = self.lvalue_key(n)
            if key is not None:
                return self.read_key(key, n)
        if name in ("Identity",) and cls.startswith("Eigen::"):
            return sp.Integer(1)
        if name in ("Zero",) and cls.startswith("Eigen::"):
            return sp.Integer(0)
        if k in ("CXXConstructExpr", "CXXTemporaryObjectExpr"):
            real = [a for a in args if not (isinstance(a, dict) and a.get("k") == "CXXDefaultArgExpr")]
            if cls == "Eigen::DiagonalMatrix" and real:
                vals = [self.ev(a) for a in real]
                if all(sp.simplify(v - vals[0]) == 0 for v in vals):
                    return vals[0]
            if len(real) == 1 and (cls.startswith("Eigen::Matrix") or cls.startswith("Eigen::Ref") or cls.startswith("Eigen::Block")
                                   or n.get("elidable") or not n.get("inrepo")):
                return self.ev(real[0])
            vals = []
            for a in real:
                vals.append(self.ev(a))
            return ("ctor", A.short(cls) or cls, vals)
        # lambda call (I33)
        if k == "CXXOperatorCallExpr" and n.get("op") == "()" and cls == "":
            vals = [self.ev(a) for a in args]
            if len(vals) == 1:
                return vals[0]     # SGal3: I33(d) = d * Identity
        raise Unknown("call %s" % (fn or name))

    def lvalue_key(self, n):
        n = A.strip(n)
        if not isinstance(n, dict):
            return None
        if n.get("k") == "DeclRefExpr":
            return ("var", n["decl"])
        return ("tgt", self.key_of(n))

    def read_key(self, key, node):
        if key is None:
            raise Unknown("read of %s" % sexp(node)[:60])
        if key[0] == "var":
            if key[1] in self.env:
                return self.env[key[1]]
            return self.ev(node)
        if key[1] in self.targets:
            return self.targets[key[1]]
        s = self.seeds(A.strip(node), self)
        if s is not None:
            return s
        if self.is_matrix(A.strip(node)):
            return self.mat_symbol("M[%s]" % key[1][:40])
        return sp.Symbol("p[%s]" % key[1][:50], real=True)

    # ------------------------------------------------------------------ conditions
    def cond(self, n):
        """Decide a branch condition in this world."""
        c = self.ev(n)
        return self.decide(c, n)

    def decide(self, c, n):
        if c == sp.true:
            return True
        if c == sp.false:
            return False
        if isinstance(c, tuple) and c[0] == "cmp":
            _, op, a, b = c[:4]
            if len(c) > 4 and c[4] is not None:
                n = c[4]
            if self.world.at is not None:
                try:
                    va = sp.nsimplify(sp.simplify(a.subs({TH: self.world.at, EPS: sp.Rational(100, 2 ** 52)}))) if isinstance(a, sp.Expr) else None
                    vb = sp.nsimplify(sp.simplify(b.subs({TH: self.world.at, EPS: sp.Rational(100, 2 ** 52)}))) if isinstance(b, sp.Expr) else None
                except (TypeError, ValueError):
                    va = vb = None
                if va is None or vb is None or not (va.is_number and vb.is_number and va.is_real and vb.is_real):
                    raise Unknown("comparison not decidable at th = %s: %s" % (self.world.at, sexp(n)[:80]))
                return bool({"<": va < vb, "<=": va <= vb, ">": va > vb, ">=": va >= vb, "==": sp.simplify(va - vb) == 0, "!=": sp.simplify(va - vb) != 0}[op])
            eps_side = None
            a_eps = isinstance(a, sp.Expr) and a.has(EPS)
            b_eps = isinstance(b, sp.Expr) and b.has(EPS)
            a_th = isinstance(a, sp.Expr) and a.has(TH)
            b_th = isinstance(b, sp.Expr) and b.has(TH)
            a_num = isinstance(a, sp.Expr) and a.is_number and a > 0
            b_num = isinstance(b, sp.Expr) and b.is_number and b > 0
            if (b_eps and not a_eps) or (b_num and a_th and sp.limit(a, TH, 0) == 0):
                eps_side, q, thr = "rhs", a, b
            elif (a_eps and not b_eps) or (a_num and b_th and sp.limit(b, TH, 0) == 0):
                eps_side, q, thr = "lhs", b, a
            if eps_side and isinstance(q, sp.Expr) and q.has(TH) and sp.limit(q, TH, 0) != 0:
                # the compared quantity does not vanish with the rotation: a switch located elsewhere (e.g. 1+cos(th)
                # near pi).  Around th -> 0 it is decided; it is examined separately around its own zero.
                q_small_when = (op in ("<", "<=")) if eps_side == "rhs" else (op in (">", ">="))
                key = sexp(n)
                self.far_switches.append((n.get("ln") if isinstance(n, dict) else None, q, q_small_when, thr, key))
                if key in self.world.signs:
                    return self.world.signs[key]
                return not q_small_when      # at th -> 0 the quantity is O(1) > threshold
            if eps_side:
                # quantity q compared with a threshold built from eps (eps, eps_sqrt, ...): q small  <=>  (q < thr)
                q_small_when = (op in ("<", "<=")) if eps_side == "rhs" else (op in (">", ">="))
                self.switches.append((n.get("ln") if isinstance(n, dict) else None, q, q_small_when, thr))
                if self.world.theta is not None:
                    lead = sp.series(q, TH, 0, 8).removeO()
                    c_, p_ = sp.expand(lead).as_leading_term(TH).as_coeff_exponent(TH)
                    ths_ = (float(thr.subs(EPS, self.world.eps_val)) / abs(float(c_))) ** (1.0 / float(p_))
                    small_here = self.world.theta < ths_
                    return q_small_when if small_here else (not q_small_when)
                return q_small_when if self.world.small else (not q_small_when)
            key = sexp(n)
            if key in self.world.signs:
                return self.world.signs[key]
            # both sides have distinct finite values at the identity (cos_angle = +-1 against 0): decided, not free
            try:
                la = sp.limit(a, TH, 0) if isinstance(a, sp.Expr) else None
                lb = sp.limit(b, TH, 0) if isinstance(b, sp.Expr) else None
                if la is not None and lb is not None and la.is_number and lb.is_number and la.is_real and lb.is_real and la != lb:
                    return bool({"<": la < lb, "<=": la <= lb, ">": la > lb, ">=": la >= lb, "==": False, "!=": True}[op])
            except (NotImplementedError, ValueError, TypeError):
                pass
            self.sign_conds.append(key)
            raise NeedSign(key)
        if isinstance(c, tuple) and c[0] == "not":
            return not self.decide(c[1], n)
        if isinstance(c, tuple) and c[0] == "and":
            return self.decide(c[1], n) and self.decide(c[2], n)
        if isinstance(c, tuple) and c[0] == "or":
            return self.decide(c[1], n) or self.decide(c[2], n)
        if isinstance(c, sp.Not):
            return not self.decide(c.args[0], n)
        raise Unknown("condition %s" % (c,))

    # ------------------------------------------------------------------ statements
    def stmt(self, s):
        if not isinstance(s, dict):
            return
        k = s.get("k")
        if k == "CompoundStmt":
            for c in s.get("ch") or []:
                self.stmt(c)
            return
        if k in ("NullStmt",):
            return
        if k == "DeclStmt":
            for d in s.get("decls") or []:
                if d.get("k") != "VarDecl":
                    continue
                init = d.get("init")
                if init is None:
                    continue
                ic = A.strip(init)
                if isinstance(ic, dict) and ic.get("k") == "CXXConstructExpr" and not ic.get("ch"):
                    continue
                if isinstance(ic, dict) and ic.get("k") == "LambdaExpr":
                    continue
                if d.get("ref") and isinstance(ic, dict):
                    # reference to a block (ConstRef33 W = Jl.block<3,3>(3,0)): alias its current value
                    try:
                        self.env[d["decl"]] = self.ev(init)
                    except Unknown:
                        self.env[d["decl"]] = self.mat_symbol("M[%s]" % d["name"]) if d.get("dim") else sp.Symbol("p[%s]" % d["name"], real=True)
                    continue
                try:
                    self.env[d["decl"]] = self.ev(init)
                except Unknown as e:
                    self.notes.append("opaque local %s (%s)" % (d["name"], e))
                    self.env[d["decl"]] = self.mat_symbol("M[%s]" % d["name"]) if d.get("dim") and tuple(d["dim"]) != (1, 1) else sp.Symbol("p[%s]" % d["name"], real=True)
            return
        if k == "IfStmt":
            take = self.cond(s.get("cond"))
            self.stmt(s.get("then") if take else s.get("else"))
            return
        if k == "ReturnStmt":
            raise Stop(self.ev(s["e"]) if s.get("e") is not None else None)
        if k in ("ForStmt", "WhileStmt", "DoStmt", "CXXForRangeStmt", "SwitchStmt"):
            raise Unknown("control flow %s" % k)
        try:
            self.ev(s)
        except Unknown as e:
            self.notes.append("statement at line %s not interpreted: %s" % (s.get("ln"), e))

    def run(self):
        ret = None
        try:
            self.stmt(self.f.get("body"))
        except Stop as st:
            ret = st.val
        return ret


class NeedSign(Exception):
    def __init__(self, key):
        self.key = key


def transpose(v, je):
    """Transpose of a polynomial in skew-symmetric symbols: reverse products, negate skew symbols."""
    v = sp.expand(v)
    if not isinstance(v, sp.Expr):
        return v
    out = 0
    for term in sp.Add.make_args(v):
        cpart, ncpart = term.args_cnc()
        sign = 1
        rev = []
        for x in reversed(ncpart):
            b, e = x.as_base_exp()
            if je.orders.get(str(b), 0) is not None and str(b).startswith("K["):
                sign *= (-1) ** int(e)
            rev.append(x)
        out += sign * sp.Mul(*cpart) * sp.Mul(*rev) if rev else sp.Mul(*cpart)
    return out


# ----------------------------------------------------------------------------------------------------
# series comparison
# ----------------------------------------------------------------------------------------------------

def term_bound(expr, orders, th_s, nterms=8):
    """Upper bound of |expr| at th = th_s: expr is a sum of  coeff(th, params) * nc-monomial; each matrix symbol of
    order k contributes th^k; parameters count as 1.  Coefficients of the same monomial are combined *before* the
    series expansion (cancellation between the two arms is the point).  Returns (bound, leading term, negative_order)."""
    expr = sp.expand(expr)
    groups = {}
    for term in sp.Add.make_args(expr):
        cpart, ncpart = term.args_cnc()
        key = tuple(ncpart)
        groups[key] = groups.get(key, 0) + sp.Mul(*cpart)
    total = 0.0
    lead = None
    neg = False
    for ncpart, coeff in groups.items():
        order = 0
        for x in ncpart:
            b, e = x.as_base_exp()
            order += orders.get(str(b), 0) * int(e)
        coeff = sp.together(coeff)
        if coeff == 0:
            continue
        params = sorted((x for x in coeff.free_symbols if x != TH), key=str)
        try:
            ser = sp.series(coeff, TH, 0, nterms).removeO()
        except Exception as e:   # noqa
            raise Unknown("series of %s: %s" % (coeff, e))
        ser = sp.expand(ser)
        for t2 in sp.Add.make_args(sp.collect(ser, TH)):
            if t2 == 0:
                continue
            c, p = t2.as_coeff_exponent(TH)
            p = sp.nsimplify(p)
            cexp = sp.expand(c)
            cabs = 0.0
            for a in sp.Add.make_args(cexp):
                k0 = a.as_coeff_Mul()[0]
                cabs += abs(float(k0)) if k0.is_number else 1.0
            tot_order = float(p) + order
            if tot_order < 0 and cabs > 0:
                neg = True
            total += cabs * (th_s ** tot_order)
            if cabs > 0 and (lead is None or tot_order < lead[0]):
                lead = (tot_order, "%s*th^%s%s" % (c, p, ("*" + "*".join(str(x) for x in ncpart)) if ncpart else ""))
    return float(total), (lead[1] if lead else "0"), neg
