"""R-FWD engine: the *term* of an API entry's returned value and of each optional output,
obtained by inlining the generic layer (LieGroupBase, TangentBase, functions.h, algorithms)
down to the per-group vocabulary {compose, inverse, exp, log, act, adj, rjac, ...}.

Terms are canonical strings.  Operands are atoms; per-group members and Eigen operators are
uninterpreted function symbols; optional outputs are engaged (so that the forwarding roles
are visible): a write `*J = e` records out[J] = term(e); passing J to a vocabulary call
f(..) at parameter position k records out[J] = (d f(..) k).
"""
import re

from . import astq as A

GENERIC_CLASSES = {"manif::LieGroupBase", "manif::TangentBase"}
GENERIC_FILES = ("/include/manif/functions.h", "/include/manif/algorithms/")


class Out:
    """An engaged optional output (caller's buffer) named `name`."""

    def __init__(self, name):
        self.name = name


class Deref(Out):
    """`*J` / `J->` / `J.value()`: the caller's matrix itself (a read yields what was written so far)."""


class Unsupported(Exception):
    pass


class Returned(Exception):
    def __init__(self, v):
        self.v = v


class Raised(Exception):
    pass


def app(fn, *args):
    return "(%s%s)" % (fn, "".join(" " + str(a) for a in args))


class EarlyReturn(Exception):
    def __init__(self, cond, val, env_else, then_returns):
        self.cond, self.val, self.env_else, self.then_returns = cond, val, env_else, then_returns


class TermEval:
    def __init__(self, F, inline_extra=()):
        self.F = F
        self.depth = 0
        self.inline_extra = set(inline_extra)
        self.outs = {}      # output name -> term
        self.effects = []   # (kind, target term, value term)   e.g. in-place assignment to *this

    def is_generic(self, f):
        if f.get("cls") in GENERIC_CLASSES:
            return True
        if f["short"] in self.inline_extra:
            return True
        if not f.get("cls") and any(g in f["file"] for g in GENERIC_FILES):
            return True
        return False

    # -------------------------------------------------------------------------------------
    def run(self, f, this, args):
        """args: list of terms / Out / None aligned with f['params']."""
        if self.depth > 10:
            raise Unsupported("inline depth")
        env = {"this": this}
        for p, a in zip(f["params"], args):
            env[p["decl"]] = a
        for p in f["params"][len(args):]:
            env[p["decl"]] = None
        self.depth += 1
        try:
            try:
                self.stmt(f.get("body"), env)
            except Returned as r:
                return r.v
            except EarlyReturn as er:
                raise Unsupported("a path of %s returns a value and another one falls off the end" % f.get("name"))
            return None
        finally:
            self.depth -= 1

    def stmt(self, n, env):
        if not isinstance(n, dict):
            return
        k = n.get("k")
        if k == "CompoundStmt":
            stmts = n.get("ch") or []
            for i, c in enumerate(stmts):
                try:
                    self.stmt(c, env)
                except EarlyReturn as er:
                    # `if (cond) return X;` on symbolic data: the rest of the block is the other arm
                    env.update(er.env_else)
                    try:
                        for c2 in stmts[i + 1:]:
                            self.stmt(c2, env)
                    except Returned as r2:
                        a, b = (er.val, r2.v) if er.then_returns else (r2.v, er.val)
                        raise Returned(app("ite", er.cond, a, b))
                    raise EarlyReturn(er.cond, er.val, env, er.then_returns)      # the enclosing block continues the other path
            return
        if k == "DeclStmt":
            for d in n.get("decls") or []:
                if d.get("k") == "VarDecl":
                    init = d.get("init")
                    env[d["decl"]] = self.ev(init, env) if init is not None else app("uninit", d["name"])
            return
        if k == "IfStmt":
            c = self.ev(n.get("cond"), env)
            if c is True:
                self.stmt(n.get("then"), env)
            elif c is False:
                self.stmt(n.get("else"), env)
            else:
                # data-dependent branch: evaluate both arms as guarded terms
                envt, enve = dict(env), dict(env)
                rt = re_ = None
                try:
                    self.stmt(n.get("then"), envt)
                except Returned as r:
                    rt = r
                except Raised:
                    rt = "raise"
                try:
                    self.stmt(n.get("else"), enve)
                except Returned as r:
                    re_ = r
                except Raised:
                    re_ = "raise"
                if rt == "raise" and re_ is None:
                    env.update(enve)      # MANIF_CHECK: continue under the passing condition
                    self.effects.append(("check", app("not", c), None))
                    return
                if isinstance(rt, Returned) and isinstance(re_, Returned):
                    raise Returned(app("ite", c, rt.v, re_.v))
                if isinstance(rt, Returned) and re_ is None:
                    raise EarlyReturn(c, rt.v, enve, True)
                if rt is None and isinstance(re_, Returned):
                    raise EarlyReturn(c, re_.v, envt, False)
                if rt is None and re_ is None:
                    for d in set(envt) | set(enve):
                        a, b = envt.get(d), enve.get(d)
                        env[d] = a if a == b or (a is b) else app("ite", c, a, b)
                    return
                raise Unsupported("mixed control flow at line %s" % n.get("ln"))
            return
        if k == "ReturnStmt":
            raise Returned(self.ev(n.get("e"), env) if n.get("e") is not None else None)
        if k == "SwitchStmt":
            c = self.ev(n.get("cond"), env)
            body = n.get("body") or {}
            arms = []
            for it in body.get("ch") or []:
                x, labels = it, []
                while isinstance(x, dict) and x.get("k") in ("CaseStmt", "DefaultStmt"):
                    labels.append(self.ev(x.get("lhs"), env) if x.get("k") == "CaseStmt" else "default")
                    x = x.get("sub")
                if labels:
                    arms.append([labels, [x]])
                elif arms:
                    arms[-1][1].append(x)
            res = []
            for labels, stmts in arms:
                e2 = dict(env)
                val = None
                try:
                    for s_ in stmts:
                        if isinstance(s_, dict) and s_.get("k") == "BreakStmt":
                            break
                        self.stmt(s_, e2)
                except Returned as r:
                    val = r.v
                except Raised:
                    val = "(raise)"
                res.append(app("case", "|".join(str(l) for l in labels), val))
            raise Returned(app("switch", c, *res))
        if k in ("NullStmt", "BreakStmt"):
            return
        if k in ("ForStmt", "WhileStmt", "DoStmt", "CXXForRangeStmt"):
            raise Unsupported("loop at line %s" % n.get("ln"))
        self.ev(n, env)

    # -------------------------------------------------------------------------------------
    def ev(self, n, env):
        n = A.strip(n)
        if not isinstance(n, dict):
            return None
        k = n.get("k")
        if k == "IntegerLiteral":
            return str(n["v"])
        if k == "FloatingLiteral":
            return str(n.get("txt") or n["v"])
        if k == "CXXBoolLiteralExpr":
            return bool(n["v"])
        if k == "StringLiteral":
            return "str"
        if k == "CXXThisExpr":
            return env.get("this")
        if k == "DeclRefExpr":
            d = n.get("decl")
            if d in env:
                return env[d]
            if n.get("name") == "_":
                return None
            if "iv" in n:
                return str(n["iv"])
            return n.get("qn") or n.get("name")
        if k in ("CXXFunctionalCastExpr", "CXXStaticCastExpr", "CStyleCastExpr", "CXXConstCastExpr"):
            v = self.ev((n.get("ch") or [None])[0], env)
            to = n.get("to", "")
            if isinstance(v, str) and re.fullmatch(r"(typename )?(\w+::)*(Scalar|double|float|_Scalar|T)", to or ""):
                return v
            return v
        if k == "UnaryOperator":
            v = self.ev(n["ch"][0], env)
            op = n.get("op")
            if op in ("*", "&", "+"):
                return v
            if op == "!" and isinstance(v, bool):
                return not v
            return app({"-": "neg", "!": "not"}.get(op, op), v)
        if k in ("BinaryOperator", "CompoundAssignOperator"):
            op = n.get("op")
            a = self.ev(n["ch"][0], env)
            if op == "&&" and a is False:
                return False
            if op == "||" and a is True:
                return True
            b = self.ev(n["ch"][1], env)
            if op == ",":
                return b
            if op == "=":
                return self.assign(n["ch"][0], b, env)
            if op in ("+=", "-=", "*=", "/="):
                return self.assign(n["ch"][0], app(op[0], a, b), env)
            if op in ("&&", "||") and isinstance(a, bool) and isinstance(b, bool):
                return (a and b) if op == "&&" else (a or b)
            if op == "&&" and a is True:
                return b
            if op == "&&" and b is True:
                return a
            return app(op, a, b)
        if k == "ConditionalOperator":
            c = self.ev(n["ch"][0], env)
            if c is True:
                return self.ev(n["ch"][1], env)
            if c is False:
                return self.ev(n["ch"][2], env)
            arms = []
            for ch in n["ch"][1:3]:
                try:
                    arms.append(self.ev(ch, env))
                except Raised:
                    arms.append("(raise)")       # `cond ? value : throw ...`
            return app("ite", c, arms[0], arms[1])
        if k == "MemberExpr":
            base = self.ev((n.get("ch") or [None])[0], env)
            return app("." + n.get("name", "?"), base)
        if k in A.CALL_KINDS:
            return self.call(n, env)
        if k == "CXXThrowExpr":
            raise Raised()
        if k in ("CXXStdInitializerListExpr", "CXXDefaultInitExpr", "InitListExpr") and n.get("ch"):
            vs = [self.ev(c, env) for c in n["ch"]]
            return vs[0] if len(vs) == 1 else app("list", *vs)
        if k == "CXXScalarValueInitExpr":
            return "0"
        if k == "DependentScopeDeclRefExpr" or k == "UnresolvedLookupExpr":
            return n.get("name")
        cs = [self.ev(c, env) for c in A.children(n)]
        return app(k, *cs)

    def assign(self, lhs, val, env):
        l = A.strip(lhs)
        if isinstance(l, dict) and l.get("k") == "DeclRefExpr" and l.get("decl") in env and not isinstance(env[l["decl"]], Out):
            env[l["decl"]] = val
            return val
        tgt = self.ev(l, env)
        if isinstance(tgt, Out):
            self.outs[tgt.name] = val
            return tgt
        self.effects.append(("assign", tgt, val))
        return tgt

    def call(self, n, env):
        k = n.get("k")
        fn, obj, args = A.call_parts(n)
        name = A.short(fn) if fn else "?"
        cls = str(n.get("cls", ""))
        if n.get("noret"):
            raise Raised()
        # ---- tl::optional plumbing -------------------------------------------------------------
        if cls == "tl::optional":
            if name in ("operator bool", "has_value"):
                v = self.ev(obj, env)
                return isinstance(v, Out)
            if k in ("CXXConstructExpr", "CXXTemporaryObjectExpr"):
                return self.ev(args[0], env) if args else None
            if (k == "CXXOperatorCallExpr" and n.get("op") in ("*", "->")) or name == "value":
                v = self.ev(obj, env)
                return Deref(v.name) if isinstance(v, Out) else v
            return app("optional." + name)
        if k == "CXXOperatorCallExpr" and n.get("op") == "=" and obj is not None and "cls" in n:
            lo = A.strip(obj)
            if isinstance(lo, dict) and lo.get("k") == "DeclRefExpr" and lo.get("decl") in env and not isinstance(env[lo["decl"]], Out) \
                    and not lo.get("global") and lo.get("dk") == "Var":
                env[lo["decl"]] = self.ev(args[0], env) if args else None   # assignment to a local object
                return env[lo["decl"]]
        o = self.ev(obj, env) if obj is not None else None
        if k == "CXXOperatorCallExpr" and "cls" not in n:
            o = None
        f = self.F.by_id.get(n.get("fid")) if n.get("inrepo") else None
        # copy / move construction of a value is the value
        if k in ("CXXConstructExpr", "CXXTemporaryObjectExpr"):
            real = [a for a in args if not (isinstance(a, dict) and a.get("k") == "CXXDefaultArgExpr")]
            if len(real) == 1 and (f is None or f.get("copyctor") or f.get("movector") or n.get("elidable")
                                   or cls.startswith("Eigen::") or self.is_conversion_ctor(f)):
                return self.ev(real[0], env)
            if not real and not (f and f.get("body")):
                return app("default", A.short(cls) or cls)
        argv = [self.ev(a, env) for a in args]
        if f is not None and f.get("short") == "derived" and f.get("cls") in GENERIC_CLASSES:
            return o
        if f is not None and self.is_generic(f) and f.get("body") is not None and not f.get("ctor"):
            return self.run(f, o, argv)
        # ---- writes to outputs through Eigen members ----------------------------------------------
        if isinstance(o, Out):
            if k == "CXXOperatorCallExpr" and n.get("op") == "=":
                self.outs[o.name] = argv[0]
                return o
            if k == "CXXOperatorCallExpr" and n.get("op") in ("+=", "-=", "*=", "/="):
                self.outs[o.name] = app(n["op"][0], self.outs.get(o.name, app("uninit", o.name)), argv[0])
                return o
            if name in ("setIdentity", "setZero", "setOnes", "setConstant"):
                self.outs[o.name] = app(name[3:], *argv)
                return o
            if name in ("noalias", "derived", "eval"):
                return o
        # ---- vocabulary call: uninterpreted symbol; outputs passed on get (d <call> k) ------------------
        if k == "CXXOperatorCallExpr":
            name = {"*": "mul", "+": "add", "-": "sub" if len(argv) + (1 if o is not None else 0) > 1 else "neg",
                    "/": "div", "=": "assign", "()": "at", "[]": "at", "<<": "commainit", ",": "comma",
                    "==": "eq", "<": "lt"}.get(n.get("op"), "op" + str(n.get("op")))
            if name == "assign" and o is not None:
                self.effects.append(("assign", o, argv[0] if argv else None))
                return o
        def rd(v):
            return self.outs.get(v.name, app("uninit", v.name)) if isinstance(v, Deref) else v
        o = rd(o)
        vals = ([o] if o is not None else []) + [rd(v) for v in argv]
        plain = [v for v in vals if not isinstance(v, Out)]
        while plain and plain[-1] is None:
            plain.pop()
        targs = [str(t) for t in (n.get("targs") or []) if isinstance(t, int)]
        sym = name + ("<" + ",".join(targs) + ">" if targs and not cls.startswith("manif::") else "")
        if k in ("CXXConstructExpr", "CXXTemporaryObjectExpr"):
            sym = "new:" + (A.short(cls) or cls)
        term = app(sym, *["_" if v is None else v for v in plain])
        pos = 0
        for i, v in enumerate(argv):
            if isinstance(v, Out):
                self.outs[v.name] = app("d", term, str(i))
        return term

    def is_conversion_ctor(self, f):
        """X(const LieGroupBase<D>& o) : X(o.coeffs())  and friends: value-preserving conversions."""
        if f is None or not f.get("ctor"):
            return False
        ps = f.get("params") or []
        if len(ps) != 1:
            return False
        cty = ps[0].get("cty", "")
        return ("LieGroupBase<" in cty or "TangentBase<" in cty or "Base<" in cty) and "Eigen::MatrixBase" not in cty
