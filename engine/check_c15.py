"""C15 - interpolation: range checks, smoothing polynomial table, SLERP definition (DESIGN.md 3/C15).
End points are decided as identities of group terms (R-END); equivariance and interior values are not decided."""
import sympy as sp

from . import astq as A
from . import check_c04 as C04
from . import common as C
from . import facts as FX
from . import scalar_eval as SE
from . import termeval as TE
from .sexp import sexp


def refs(n, decls):
    for x in A.walk(n):
        if x.get("k") == "DeclRefExpr" and x.get("decl") in decls:
            return True
    return False


def is_range_check(s, decls):
    """`if (!(t >= 0 && t <= 1)) raise(..)` (NaN-rejecting) or `if (t < 0 || t > 1) raise(..)`.
    Returns 'nan-rejecting' / 'plain' / None."""
    if not (isinstance(s, dict) and s.get("k") == "IfStmt"):
        return None
    then = s.get("then")
    if not any(x.get("noret") for x in A.walk(then)):
        return None
    cond = A.strip(s.get("cond"))
    if not refs(cond, decls):
        return None
    txt = sexp(cond)
    cmp0 = cmp1 = False
    for x in A.walk(cond):
        if x.get("k") == "BinaryOperator" and x.get("op") in ("<", ">", "<=", ">="):
            a, b = A.strip(x["ch"][0]), A.strip(x["ch"][1])
            for u, v in ((a, b), (b, a)):
                if refs(u, decls):
                    c = _const(v)
                    if c == 0:
                        cmp0 = True
                    if c == 1:
                        cmp1 = True
    if not (cmp0 and cmp1):
        return None
    return "nan-rejecting" if txt.startswith("(! ") else "plain"


def _const(n):
    n = A.strip(n)
    for _ in range(4):
        if isinstance(n, dict) and n.get("k") in ("CXXFunctionalCastExpr", "CXXStaticCastExpr", "CStyleCastExpr", "CXXConstructExpr") and n.get("ch"):
            n = A.strip(n["ch"][0])
    if isinstance(n, dict) and n.get("k") in ("IntegerLiteral", "FloatingLiteral"):
        return n.get("v")
    return None


def range_mpt(rep, F, f, tname="t"):
    """R-MPT: the range check on t dominates every other use of t (and of scalar copies of t)."""
    body = f.get("body") or {}
    stmts = body.get("ch") or []
    decls = {p["decl"] for p in f["params"] if p["name"] == tname}
    if not decls:
        rep.broke("anchor vanished: parameter '%s' of %s" % (tname, f["name"]))
        return
    checked = None
    for s in stmts:
        kind = is_range_check(s, decls)
        if kind:
            checked = kind
            break
        # a plain scalar copy of t made before the check is an alias, not a use
        if isinstance(s, dict) and s.get("k") == "DeclStmt":
            alias = False
            for d in s.get("decls") or []:
                if d.get("k") == "VarDecl" and d.get("init") is not None:
                    i = A.strip(d["init"])
                    while isinstance(i, dict) and i.get("k") in ("CXXFunctionalCastExpr", "CXXConstructExpr", "CXXStaticCastExpr") and i.get("ch"):
                        i = A.strip(i["ch"][0])
                    if isinstance(i, dict) and i.get("k") == "DeclRefExpr" and i.get("decl") in decls:
                        decls.add(d["decl"])
                        alias = True
            if alias:
                continue
        if refs(s, decls):
            rep.fail(C.Finding("C15", "R-MPT.range", f["name"], "the interpolation parameter is used at line %s before (or without) the [0,1] range check" % s.get("ln"), f["file"], s.get("ln")))
            return
    rep.obligation(checked is not None, lambda: C.Finding(
        "C15", "R-MPT.range", f["name"], "no check rejecting a parameter outside [0,1] dominates the uses of '%s'" % tname, f["file"], f["line"]))
    if checked:
        rep.observations.append("%s: range check form = %s" % (f["name"].split("<")[0], checked))


def phi_table(rep, F):
    f = None
    for g in F.functions:
        if g["kind"] == "inst" and g["short"] == "smoothing_phi" and g.get("targs") == ["double"]:
            f = g
    if f is None:
        rep.broke("anchor vanished: smoothing_phi<double>")
        return 0
    t = sp.Symbol("t", real=True)
    tdecl = [p["decl"] for p in f["params"] if p["name"] == "t"][0]
    ddecl = [p["decl"] for p in f["params"] if p["name"] == "degree"][0]
    ev = SE.ScalarEval(F)
    stmts = (f.get("body") or {}).get("ch") or []
    ret = [s for s in stmts if s.get("k") == "ReturnStmt"]
    if not ret:
        rep.broke("smoothing_phi has no return statement")
        return 0
    supported, thrown = {}, []
    for deg in range(0, 9):
        env = {tdecl: t, ddecl: sp.Integer(deg)}
        ev.run_straight(stmts, env)
        try:
            supported[deg] = sp.expand(ev.ev(ret[0]["e"], env))
        except SE.Thrown:
            thrown.append(deg)
        except SE.Unknown as e:
            rep.broke("R-TABLE cannot interpret smoothing_phi for degree %d: %s" % (deg, e))
            return 0
    n = 0
    for deg, phi in sorted(supported.items()):
        site = "smoothing_phi(degree=%d)" % deg

        def bad(msg):
            return C.Finding("C15", "R-TABLE.phi", site, "%s: phi = %s" % (msg, phi), f["file"], f["line"])
        n += 1
        rep.obligation(phi.subs(t, 0) == 0, lambda: bad("phi(0) != 0"))
        rep.obligation(phi.subs(t, 1) == 1, lambda: bad("phi(1) = %s != 1" % phi.subs(t, 1)))
        d1 = sp.diff(phi, t)
        # monotone on [0,1]: phi' has no root of odd multiplicity inside (0,1) and is positive at 1/2
        inside = [r for r, m in sp.roots(sp.Poly(d1, t)).items() if r.is_real and 0 < r < 1 and m % 2 == 1]
        complex_ok = sum(sp.roots(sp.Poly(d1, t)).values()) == sp.degree(d1, t)
        mono = (not inside) and d1.subs(t, sp.Rational(1, 2)) > 0 and complex_ok
        if not complex_ok:
            mono = sp.Poly(d1, t).count_roots(0, 1) - (1 if d1.subs(t, 0) == 0 else 0) - (1 if d1.subs(t, 1) == 0 else 0) == 0 and d1.subs(t, sp.Rational(1, 2)) > 0
        rep.obligation(bool(mono), lambda: bad("phi is not monotone on [0,1] (phi' = %s)" % sp.factor(d1)))
        # C^degree contact: the first `deg` derivatives vanish at both ends
        flat = all(sp.diff(phi, t, j).subs(t, 0) == 0 and sp.diff(phi, t, j).subs(t, 1) == 0 for j in range(1, deg + 1))
        rep.obligation(flat, lambda: bad("derivatives up to order %d do not all vanish at t=0 and t=1" % deg))
        rep.sample({"degree": deg, "phi": str(phi), "phi_prime": str(sp.factor(d1))})
    rep.obligation(set(supported) == {1, 2, 3, 4} and set(thrown) == {0, 5, 6, 7, 8}, lambda: C.Finding(
        "C15", "R-TABLE.phi", "smoothing_phi(degree)", "supported degrees %s, raising degrees %s (documented: 1..4 supported, others raise)" % (sorted(supported), thrown), f["file"], f["line"]))
    return n


METHODS = (("interpolate_slerp", ["A", "B", "t"], [None]),
           ("interpolate_cubic", ["A", "B", "t", "ta", "tb"], [None]),
           ("interpolate_smooth", ["A", "B", "t", "m", "ta", "tb"], [1, 2, 3, 4]))


def end_points(rep, F, G):
    """R-END: the group term of each method, with t := 0 / 1 (and each supported degree), reduces to A / B in the
    free group under the laws of engine/endpoint.py - for arbitrary end velocities ta, tb."""
    from fractions import Fraction
    from . import endpoint as EP
    n = 0
    for name, atoms, degrees in METHODS:
        f = next((g for g in F.functions if g["kind"] == "inst" and g["short"] == name and g.get("targs") and str(g["targs"][0]) == G and g["targs"][1] == "double"), None)
        if f is None:
            continue       # reported by the anchor check of run()
        pn = [p["name"] for p in f["params"] if "opt" not in p and "optother" not in p]
        if len(pn) != len(atoms):
            rep.broke("R-END: %s has %d value parameters, %d expected" % (name, len(pn), len(atoms)))
            continue
        try:
            ret, outs, eff = C04.evaluate(F, f, None, atoms)
            term = EP.parse(ret)
        except (TE.Unsupported, TE.Raised, EP.Unknown) as e:
            rep.broke("R-END cannot build the term of %s<%s>: %s" % (name, G, e))
            continue
        for m in degrees:
            for tv, want in ((0, "A"), (1, "B")):
                sc = {"t": Fraction(tv)}
                if m is not None:
                    sc["m"] = Fraction(m)
                site = "%s<%s>(t=%d%s)" % (name, G, tv, "" if m is None else ",m=%d" % m)
                try:
                    w = EP.Eval(sc, ["A", "B"], ["ta", "tb"]).group(term)
                except EP.Unknown as e:
                    rep.broke("R-END cannot evaluate %s: %s" % (site, e))
                    continue
                n += 1
                rep.obligation(w == [(want, 1)], lambda w=w, site=site, want=want, tv=tv: C.Finding(
                    "C15", "R-END", site, "at t = %d the interpolant reduces to  %s  instead of %s (group axioms, exp(0) = e, exp(-v) = exp(v)^-1, exp(log W) = W; arbitrary end velocities)" % (tv, EP.show(w), want),
                    f["file"], f["line"]))
    return n


def run(args):
    rep = C.Report("C15", "other", "must-pass-through range checks, exact polynomial table of smoothing_phi, SLERP term (R-FWD)")
    n_fn = n_phi = n_end = 0
    # R-SERIES.slerp: semantic form of the SLERP clause (one template for all groups; evaluated on SO2, SE2 and SO3)
    from . import rules_series as RS
    sem = {}
    for sv in ("SO2", "SE2", "SO3"):
        try:
            sem[sv] = RS.slerp_semantic(sv)
        except C.AnalysisBroken as e:
            rep.broke(str(e))
            sem[sv] = (None, str(e), 0)
    for sv, (ok_, detail, cells) in sem.items():
        if ok_ is None:
            continue
        rep.ok(max(0, cells - (0 if ok_ else 1)))
        if not ok_:
            rep.fail(C.Finding("C15", "R-SERIES.slerp", "interpolate_slerp<%s>" % sv,
                               "with A = exp(e x), B = A exp(e y) and symbolic tau the matrix of interpolate_slerp(A, B, tau) is not T(A) expm(tau hat(log(A^-1 B))) through order 3: %s" % detail, None, None))
    rep.floor("slerp_semantic_cells", sum(c_ for _o, _d, c_ in sem.values()), 34)

    def semantic_ok():
        return all(sem.get(sv, (None,))[0] is True for sv in ("SO2", "SE2", "SO3"))
    for v in FX.variants():
        F = FX.get(v)
        gs = [g for g in C04.owning(F, "manif::LieGroupBase") if C04._is_variant_group(g, v)]
        if not gs:
            rep.broke("no group in driver %s" % v)
            continue
        G = gs[0]
        for name in ("interpolate_slerp", "interpolate_cubic", "interpolate_smooth"):
            f = next((g for g in F.functions if g["kind"] == "inst" and g["short"] == name and g.get("targs") and str(g["targs"][0]) == G and g["targs"][1] == "double"), None)
            if f is None:
                rep.broke("anchor vanished: %s<%s>" % (name, G))
                continue
            n_fn += 1
            range_mpt(rep, F, f)
        n_end += end_points(rep, F, G)
        # dispatcher: every enumerator has a case that returns one of the three; default raises
        f = next((g for g in F.functions if g["kind"] == "inst" and g["short"] == "interpolate" and g.get("targs") and str(g["targs"][0]) == G), None)
        enum = next((e for e in F.enums if e["name"] == "manif::INTERP_METHOD"), None)
        if f is None or enum is None:
            rep.broke("anchor vanished: interpolate<%s> / INTERP_METHOD" % G)
        else:
            sw = next((x for x in A.walk(f) if x.get("k") == "SwitchStmt"), None)
            cases, default_raises = {}, False
            if sw:
                for it in (sw.get("body") or {}).get("ch") or []:
                    if it.get("k") == "CaseStmt":
                        val = (A.strip(it.get("lhs")) or {}).get("iv")
                        callee = [A.short(x.get("fn")) for x in A.walk(it.get("sub")) if A.is_call(x) and x.get("inrepo") and A.short(x.get("fn")).startswith("interpolate_")]
                        is_ret = (it.get("sub") or {}).get("k") == "ReturnStmt"
                        cases[val] = callee[0] if callee and is_ret else None
                    if it.get("k") == "DefaultStmt":
                        default_raises = any(x.get("noret") for x in A.walk(it))
            want = {0: "interpolate_slerp", 1: "interpolate_cubic", 2: "interpolate_smooth"}
            names = {e["v"]: e["name"] for e in enum["enumerators"]}
            rep.obligation(cases == want and set(names) == set(want) and default_raises, lambda: C.Finding(
                "C15", "R-MPT.dispatch", f["name"], "switch over INTERP_METHOD: cases %s, enumerators %s, default raises: %s" % (cases, names, default_raises), f["file"], f["line"]))
        # SLERP is A * exp(t * log(A^-1 B))
        f = next((g for g in F.functions if g["kind"] == "inst" and g["short"] == "interpolate_slerp" and g.get("targs") and str(g["targs"][0]) == G and g["targs"][1] == "double"), None)
        if f is not None:
            try:
                ret, outs, eff = C04.evaluate(F, f, None, ["A", "B", "t"])
                want = "(mul (log (compose (inverse A) B)) t)"
                ok = ret in ("(compose A (exp %s))" % want, "(compose A (exp (mul t (log (compose (inverse A) B)))))")
                branches = [x for x in A.walk(f.get("body")) if (x.get("k") == "IfStmt" and not any(y.get("noret") for y in A.walk(x.get("then")))) or x.get("k") in ("ConditionalOperator", "SwitchStmt")]
                if not ok and semantic_ok() and not branches:      # a data-dependent branch is not covered by the closed-form world of R-SERIES.slerp
                    # another spelling of the same map (e.g. exp(t*log(B*A^-1))*A): accepted because the semantic form holds
                    rep.observations.append("interpolate_slerp<%s> is spelled %s; accepted: R-SERIES.slerp holds" % (G, ret[:120]))
                    ok = True
                rep.obligation(ok, lambda: C.Finding("C15", "R-FWD.slerp", f["name"], "interpolate_slerp normalises to %s, expected A*exp(t*log(A^-1*B)), and the semantic check R-SERIES.slerp does not hold either" % ret, f["file"], f["line"]))
            except (TE.Unsupported, TE.Raised) as e:
                rep.broke("R-FWD cannot normalise interpolate_slerp<%s>: %s" % (G, e))
    n_phi = phi_table(rep, FX.get(FX.variants()[0]))
    rep.floor("interpolation_functions", n_fn, 24)
    rep.floor("phi_degrees", n_phi, 4)
    rep.floor("end_point_identities", n_end, 8 * 12)
    rep.rules = [
        "R-MPT.range: in interpolate_slerp / _cubic / _smooth a check that raises when t is outside [0,1] precedes every other use of t (scalar copies of t are aliases)",
        "R-MPT.dispatch: interpolate() has one returning case per INTERP_METHOD enumerator, forwarding to the matching routine, and raises on any other value",
        "R-TABLE.phi (exact, sympy over Q): for each supported degree phi(0)=0, phi(1)=1, phi monotone on [0,1], first `degree` derivatives vanish at both ends; degrees outside 1..4 raise",
        "R-FWD.slerp: interpolate_slerp(A,B,t) normalises to A*exp(t*log(A^-1*B)) (another spelling is accepted only if R-SERIES.slerp holds)",
        "R-SERIES.slerp (semantic, spelling-independent): for SO2, SE2, SO3, with A = exp(e x), B = A exp(e y) and a symbolic parameter tau, the code of interpolate_slerp interpreted over truncated power series gives T(m(tau)) = T(A) sum_k (tau e hat(y))^k/k! through order 3 cell by cell, i.e. log(A^-1 m(tau)) = tau log(A^-1 B) (the geodesic law) in every direction",
        "R-END: for SLERP, CUBIC and CNSMOOTH (degrees 1..4) the group term of the routine (generic layer inlined, R-FWD), with the scalar weights evaluated exactly at t = 0 and t = 1, reduces in the free group over {A, B, exp(v)} to A resp. B using only: associativity, X X^-1 = e, exp(0) = e, exp(-v) = exp(v)^-1, exp(log W) = W, 0*v = 0, 1*v = v - for arbitrary end velocities ta, tb and every group",
    ]
    rep.units = ["%s_double_own_funcs_debug" % v for v in FX.variants()]
    rep.trusted = ["clang AST", "sympy polynomial arithmetic"]
    rep.assumptions = ["the end-point identities are decided as identities of group terms (R-END); their floating-point residual is not",
                       "NOT decided: equivariance; the geodesic law beyond order 3 at the identity and as a numerical statement"]
    rep.checker_cmd = "manif-sa plugin (mode=funcs) + engine/check_c15.py + termeval.py (R-FWD) + endpoint.py (R-END)"
    return rep.finish()
