"""Runs the interpreter rules (rules_out) over a set of fact files once and lets each
property's check select the sites that belong to it."""
import collections

from . import common as C
from . import facts as FX
from . import rules_out as R

_cache = {}


class RuleRun:
    def __init__(self):
        self.items = []      # dict(rule, file, line, fn, short, cls, what, msg, tag)
        self.counts = collections.Counter()
        self.functions = []  # (tag, fn name, short, cls, n_opt_params)
        self.blocks = []     # dict(fn, short, cls, file, line, ok, text, tag)
        self.views = []      # dict(fn, short, cls, file, line, k, host, view, view_type, view_const, host_const, tag)
        self.exempt_notes = []
        self.shapes = []     # per function: exit shape of outputs / returned local (written + exactly-zero masks)
        self.tags = []


def run(specs):
    key = (C.REPO, tuple(sorted(tuple(sorted(s.items())) for s in specs)))
    if key in _cache:
        return _cache[key]
    fl = FX.get_many(specs)
    rr = RuleRun()
    for F in fl:
        rr.tags.append(F.tag)
        res = R.analyse_facts(F)
        for fid, r in res.items():
            f = F.by_id[fid]
            rr.functions.append((F.tag, f["name"], f["short"], f.get("cls"), r.counts["opt_params"]))
            for k, c in r.counts.items():
                rr.counts[k] += c
            if r.exit_shape or r.ret_local:
                rr.shapes.append(dict(tag=F.tag, fn=f["name"], short=f["short"], cls=f.get("cls"), clsargs=f.get("clsargs"),
                                      file=f["file"], line=f["line"], outs=r.exit_shape, ret=r.ret_local))
            rr.exempt_notes += r.exempt_notes
            for (rule, what, msg, ln) in r.findings:
                rr.items.append(dict(rule=rule, file=f["file"], line=ln, fn=f["name"], short=f["short"],
                                     cls=f.get("cls"), what=what, msg=msg, tag=F.tag))
        for f, n, ok, text in R.block_bounds(F):
            rr.blocks.append(dict(fn=f["name"], short=f["short"], cls=f.get("cls"), file=f["file"], line=n.get("ln"),
                                  ok=ok, text=text, tag=F.tag))
        for f, n, k, host, view, vt, vconst, hconst in R.raw_views(F):
            rr.views.append(dict(fn=f["name"], short=f["short"], cls=f.get("cls"), file=f["file"], line=n.get("ln"),
                                 k=k, host=host, view=view, view_type=vt, view_const=vconst, host_const=hconst,
                                 const_method=bool(f.get("const")), tag=F.tag))
    _cache[key] = rr
    return rr


def default_specs(kinds=("own",)):
    specs = [dict(variant=v, kind=k) for v in FX.variants() for k in kinds]
    if C.tier() == "thorough":
        specs += [dict(variant=v, kind="own", scalar="float") for v in FX.variants()]
    return specs


def finding(prop, it, suffix=""):
    site = "%s{%s}" % (it["fn"], it["what"])
    return C.Finding(prop, it["rule"], site, it["msg"] + suffix, it["file"], it["line"], {"driver": it["tag"]})
