"""Helpers over the JSON AST exported by the manif-sa plugin (mode=funcs)."""

CHILD_KEYS = ("ch", "decls", "inits")
NODE_KEYS = ("cond", "then", "else", "init", "inc", "body", "e", "sub", "lhs", "var", "range")
CALL_KINDS = ("CallExpr", "CXXMemberCallExpr", "CXXOperatorCallExpr", "CXXConstructExpr",
              "CXXTemporaryObjectExpr")


def children(n):
    if not isinstance(n, dict):
        return
    for k in CHILD_KEYS:
        v = n.get(k)
        if isinstance(v, list):
            for c in v:
                if isinstance(c, dict):
                    yield c
    for k in NODE_KEYS:
        v = n.get(k)
        if isinstance(v, dict):
            yield v


def walk(n):
    """Pre-order over all nodes below n (n included)."""
    stack = [n]
    while stack:
        x = stack.pop()
        if not isinstance(x, dict):
            continue
        yield x
        cs = list(children(x))
        stack.extend(reversed(cs))


def is_call(n):
    return isinstance(n, dict) and n.get("k") in CALL_KINDS


def call_parts(n):
    """(fn_qualified_name, obj_node_or_None, [arg nodes]) of a call node."""
    k = n.get("k")
    ch = n.get("ch", [])
    if k == "CXXMemberCallExpr":
        callee = ch[0] if ch else {}
        obj = (callee.get("ch") or [None])[0] if isinstance(callee, dict) else None
        return n.get("fn") or callee.get("name"), obj, ch[1:]
    if k == "CXXOperatorCallExpr":
        args = ch[1:]
        if "cls" in n:  # member operator: first arg is the object
            return n.get("fn"), (args[0] if args else None), args[1:]
        return n.get("fn"), None, args
    if k == "CallExpr":
        callee = ch[0] if ch else {}
        name = n.get("fn") or (callee.get("name") if isinstance(callee, dict) else None)
        return name, None, ch[1:]
    if k in ("CXXConstructExpr", "CXXTemporaryObjectExpr"):
        return n.get("fn"), None, ch
    return None, None, []


def short(fn):
    """Unqualified function name of a qualified name possibly containing template args."""
    if not fn:
        return ""
    depth, last = 0, 0
    for i, c in enumerate(fn):
        if c == "<":
            depth += 1
        elif c == ">":
            depth -= 1
        elif c == ":" and depth == 0:
            last = i + 1
    s = fn[last:]
    j = s.find("<")
    if j > 0 and not s.startswith("operator"):
        s = s[:j]
    return s


def strip(n):
    """Skip transparent wrappers kept by the dumper (default-arg nodes)."""
    while isinstance(n, dict) and n.get("k") == "CXXDefaultArgExpr" and n.get("ch"):
        n = n["ch"][0]
    return n


def callees(f_or_node):
    """All resolved callee ids below a node."""
    out = set()
    root = f_or_node.get("body") if "body" in f_or_node else f_or_node
    for n in walk(root):
        fid = n.get("fid")
        if fid is not None:
            out.add(fid)
    if "inits" in f_or_node:
        for i in f_or_node["inits"]:
            for n in walk(i.get("init")):
                fid = n.get("fid")
                if fid is not None:
                    out.add(fid)
    return out


def loc(facts, f, n=None):
    return f.get("file"), (n.get("ln") if isinstance(n, dict) and n.get("ln") else f.get("line"))
