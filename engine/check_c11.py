"""C11 - a Bundle is the direct product of its element groups (DESIGN.md 3/C11).

 a. offset tables: static_assert witnesses (decided by the compiler's constant evaluator) on ~45 layouts
 b/f. placement: the tables that the Bundle's hat / Vee / Generator / smallAdj / InnerWeights / element
      constructor build equal the block-diagonal assembly of the element groups' own tables at offsets
      computed independently from the documented element sizes (exact, symbolic)
 c. operation agreement: X_impl invokes X (and nothing else) on element<i>() with the same i as its block
 d. Jacobians: every Jacobian result / output is exactly zero outside the element blocks and fully
      written inside them (definite-assignment + exact-zero dataflow)
 e. element<i>() views alias exactly the i-th element's coefficients (R-PTR)
"""
import os
import re

from . import astq as A
from . import common as C
from . import facts as FX
from . import outputs as O
from . import rules_table as RT
from . import symeval as S
from . import witness as W

# documented sizes: Dim, DoF, RepSize, rows of the Lie algebra matrix, rows of the homogeneous matrix
SIZES = {"SO2": (2, 1, 2, 2, 3), "SE2": (2, 3, 4, 3, 3), "SO3": (3, 3, 4, 3, 4), "SE3": (3, 6, 7, 4, 4),
         "SE_2_3": (3, 9, 10, 5, 5), "SGal3": (3, 10, 11, 5, 5)}
for _n in range(1, 10):
    SIZES["R%d" % _n] = (_n, _n, _n, _n + 1, _n + 1)
KINDS = ("Dim", "DoF", "RepSize", "Alg", "Tra")


def prefix(layout, k):
    out, acc = [], 0
    for g in layout:
        out.append(acc)
        acc += SIZES[g][k]
    return out, acc


def layouts():
    base = ["SO2", "SE2", "SO3", "SE3", "SE_2_3", "SGal3", "R1", "R4", "R7"]
    ls = [[g] for g in base]
    n = len(base)
    for i, g in enumerate(base):
        x, y = base[(i + 1) % n], base[(i + 4) % n]
        ls += [[g, x, y], [x, g, y], [x, y, g], [g, g]]
    ls += [W.BUNDLE_LAYOUTS[k] for k in sorted(W.BUNDLE_LAYOUTS)]
    return ls


def offset_witnesses(rep, work):
    """C11.a"""
    lines = ["#include <manif/manif.h>", "namespace vt_c11 {", "using manif::internal::traits;"]
    obligations = []
    for li, lay in enumerate(layouts()):
        for scalar in ("double",):
            b = "manif::Bundle<%s, %s>" % (scalar, ", ".join("manif::" + g for g in lay))
            bt = "manif::BundleTangent<%s, %s>" % (scalar, ", ".join("manif::" + g for g in lay))
            lines.append("namespace L%d {" % li)
            lines.append("using B = %s; using BT = %s;" % (b, bt))
            tot = {}
            for ki, kind in enumerate(KINDS):
                idx, total = prefix(lay, ki)
                tot[kind] = total
                for i, off in enumerate(idx):
                    if kind in ("Dim", "RepSize", "Tra"):
                        arr = {"Dim": "DimIdx", "RepSize": "RepSizeIdx", "Tra": "TraIdx"}[kind]
                        cond = "std::get<%d>(traits<B>::%s) == %d" % (i, arr, off)
                        obligations.append((lay, "traits<Bundle>::%s[%d] == %d" % (arr, i, off)))
                        lines.append('static_assert(%s, "C11.a %s[%d] of %s");' % (cond, arr, i, "-".join(lay)))
                    if kind == "DoF":
                        for cls in ("B", "BT"):
                            cond = "std::get<%d>(traits<%s>::DoFIdx) == %d" % (i, cls, off)
                            obligations.append((lay, "traits<%s>::DoFIdx[%d] == %d" % (cls, i, off)))
                            lines.append('static_assert(%s, "C11.a DoFIdx[%d] of %s");' % (cond, i, "-".join(lay)))
                    if kind == "RepSize":
                        cond = "std::get<%d>(traits<BT>::RepSizeIdx) == %d" % (i, prefix(lay, 1)[0][i])
                        obligations.append((lay, "traits<BundleTangent>::RepSizeIdx[%d] == DoF prefix" % i))
                        lines.append('static_assert(%s, "C11.a tangent RepSizeIdx[%d] of %s");' % (cond, i, "-".join(lay)))
                    if kind == "Alg":
                        cond = "std::get<%d>(traits<BT>::AlgIdx) == %d" % (i, off)
                        obligations.append((lay, "traits<BundleTangent>::AlgIdx[%d] == %d" % (i, off)))
                        lines.append('static_assert(%s, "C11.a AlgIdx[%d] of %s");' % (cond, i, "-".join(lay)))
            totals = [("B::Dim", tot["Dim"]), ("B::DoF", tot["DoF"]), ("B::RepSize", tot["RepSize"]), ("BT::DoF", tot["DoF"]),
                      ("BT::RepSize", tot["DoF"]), ("B::Transformation::RowsAtCompileTime", tot["Tra"]),
                      ("BT::LieAlg::RowsAtCompileTime", tot["Alg"]), ("B::Jacobian::RowsAtCompileTime", tot["DoF"]),
                      ("B::Vector::RowsAtCompileTime", tot["Dim"]), ("int(B::BundleSize)", len(lay))]
            for e, v in totals:
                obligations.append((lay, "%s == %d" % (e, v)))
                lines.append('static_assert(%s == %d, "C11.a total %s of %s");' % (e, v, e, "-".join(lay)))
            for i, g in enumerate(lay):
                el = "manif::%s<%s>" % (g, scalar)
                obligations.append((lay, "Element<%d> is %s" % (i, el)))
                lines.append('static_assert(std::is_same<B::Element<%d>, %s>::value, "C11.a element %d of %s");' % (i, el, i, "-".join(lay)))
            lines.append("}")
    lines.append("}")
    p = os.path.join(work, "c11_offsets.cc")
    with open(p, "w") as fh:
        fh.write("\n".join(lines) + "\n")
    rc, err, cmd = W.compile_syntax_only(p, C.base_flags())
    bad = [l for l in err.splitlines() if "static_assert failed" in l or "static assertion failed" in l]
    other = [l for l in err.splitlines() if ": error:" in l and l not in bad]
    if rc != 0 and not bad:
        rep.broke("offset witness TU failed to compile: %s" % (other[:2] or err[:300]))
        return 0
    for l in bad:
        m = re.search(r'"(C11\.a [^"]*)"', l)
        rep.fail(C.Finding("C11", "E1-static_assert", m.group(1) if m else l[:120],
                           "offset table of the Bundle traits is not the prefix sum of the element sizes: " + (m.group(1) if m else l[:200]),
                           os.path.join(C.REPO, "include/manif/impl/traits.h"), 0))
    rep.ok(len(obligations) - len(bad))
    rep.section("offset_witnesses", layouts=len(layouts()), static_asserts=len(obligations), failed=len(bad), cmd=" ".join(cmd))
    for lay, txt in obligations[:: max(1, len(obligations) // 8)]:
        rep.sample({"layout": "-".join(lay), "static_assert": txt})
    return len(obligations)


def blockdiag_mask(sizes_r, sizes_c, R, Cc):
    m = 0
    r0 = c0 = 0
    for nr, nc in zip(sizes_r, sizes_c):
        for r in range(r0, r0 + nr):
            for c in range(c0, c0 + nc):
                m |= 1 << (r * Cc + c)
        r0 += nr
        c0 += nc
    return m, (r0, c0)


def jacobian_shapes(rep, variant, layout):
    """C11.d on one analysed layout."""
    rr = O.run([dict(variant=variant, kind="own"), dict(variant=variant, kind="map")])
    dof = [SIZES[g][1] for g in layout]
    dim = [SIZES[g][0] for g in layout]
    alg = [SIZES[g][3] for g in layout]
    tra = [SIZES[g][4] for g in layout]
    n = 0
    want_fns = {"inverse", "log", "compose", "act", "exp", "adj_impl", "rjac_impl", "ljac_impl", "rjacinv_impl",
                "ljacinv_impl", "smallAdj_impl", "hat_impl", "transform_impl"}
    seen = set()
    for sh in rr.shapes:
        if sh["cls"] not in ("manif::BundleBase", "manif::BundleTangentBase") or sh["short"] not in want_fns:
            continue
        items = []
        for name, (R, Cc, w, z, kind) in sh["outs"].items():
            if kind == "opt":
                items.append((name, R, Cc, w, z))
        if sh["ret"] and sh["short"].endswith("_impl"):
            items.append(("return:" + sh["ret"][0],) + tuple(sh["ret"][1:]))
        for name, R, Cc, w, z in items:
            if (R, Cc) == (sum(dof), sum(dof)):
                rows, cols = dof, dof
            elif (R, Cc) == (sum(dim), sum(dof)):
                rows, cols = dim, dof
            elif (R, Cc) == (sum(dim), sum(dim)):
                rows, cols = dim, dim
            elif (R, Cc) == (sum(alg), sum(alg)) and sh["short"] == "hat_impl":
                rows, cols = alg, alg
            elif (R, Cc) == (sum(tra), sum(tra)) and sh["short"] == "transform_impl":
                rows, cols = tra, tra
            else:
                continue
            diag, _ = blockdiag_mask(rows, cols, R, Cc)
            full = (1 << (R * Cc)) - 1
            n += 1
            seen.add(sh["short"])
            site = "%s{%s}" % (sh["fn"], name)
            rep.obligation((w & diag) == diag, lambda site=site, sh=sh: C.Finding(
                "C11", "R-DA.blockdiag", site, "an element block of the Bundle result is not completely written", sh["file"], sh["line"]))
            off = full & ~diag
            rep.obligation((z & off) == off, lambda site=site, sh=sh: C.Finding(
                "C11", "R-ZERO.offdiag", site,
                "cells outside the element blocks are not provably exactly zero (missing zero-fill, or a block written at the wrong offset)",
                sh["file"], sh["line"]))
    rep.section("jacobian_shapes_" + variant, matrices_checked=n, functions=sorted(seen))
    return n, seen


def op_agreement(rep, F):
    """C11.c: in X_impl of BundleBase / BundleTangentBase every call on element<i>() is X itself, and the indices
    used for the block (std::get<i>(..Idx)) agree with i."""
    n = 0
    for f in F.functions:
        if f["kind"] == "pattern" or f.get("cls") not in ("manif::BundleBase", "manif::BundleTangentBase") or not f["short"].endswith("_impl"):
            continue
        op = f["short"][:-5]
        body = f.get("body")
        # pack elements: top-level expressions inside init lists / constructor argument lists
        units = []
        for x in A.walk(body):
            if x.get("k") == "InitListExpr":
                units += [c for c in (x.get("ch") or []) if isinstance(c, dict)]
            elif x.get("k") in ("CXXConstructExpr", "CXXTemporaryObjectExpr") and str(x.get("cls", "")).startswith("manif::"):
                ch = [A.strip(c) for c in (x.get("ch") or []) if isinstance(c, dict)]
                # skip the (elided) copy of the freshly built result: LieGroup(LieGroup(e0, e1, ...))
                if len(ch) == 1 and isinstance(ch[0], dict) and ch[0].get("k") in ("CXXConstructExpr", "CXXTemporaryObjectExpr", "CXXFunctionalCastExpr") and ch[0].get("cls") == x.get("cls"):
                    continue
                if len(ch) == 1 and isinstance(ch[0], dict) and ch[0].get("k") == "CXXFunctionalCastExpr":
                    continue
                units += ch
        for u in units:
            elems, gets, calls = set(), set(), []
            for y in A.walk(u):
                if y.get("k") == "CXXMemberCallExpr":
                    nm = A.short(y.get("fn"))
                    if nm == "element":
                        ints = [t for t in (y.get("targs") or []) if isinstance(t, int)]
                        if ints:
                            elems.add(ints[0])
                    _, obj, _ = A.call_parts(y)
                    o = A.strip(obj)
                    if isinstance(o, dict) and o.get("k") == "CXXMemberCallExpr" and A.short(o.get("fn")) == "element" and y.get("inrepo"):
                        calls.append((nm, y))
                if y.get("k") == "CallExpr" and A.short(y.get("fn")) == "get" and str(y.get("fn", "")).startswith("std::get"):
                    ints = [t for t in (y.get("targs") or []) if isinstance(t, int)]
                    if ints:
                        gets.add(ints[0])
            if not elems:
                continue
            n += 1
            rep.obligation(len(elems) == 1 and (not gets or gets == elems), lambda f=f, elems=elems, gets=gets: C.Finding(
                "C11", "R-IDX", f["name"], "element indices %s and offset-table indices %s disagree inside one pack element" % (sorted(elems), sorted(gets)),
                f["file"], f["line"]))
            for nm, y in calls:
                rep.obligation(nm == op, lambda f=f, nm=nm, y=y, op=op: C.Finding(
                    "C11", "R-OPAGREE", "%s@%s" % (f["name"], nm),
                    "%s_impl invokes '%s' on an element (expected '%s')" % (op, nm, op), f["file"], y.get("ln")))
    return n


def table_placement(rep, F, variant, layout):
    """C11.b/f: bundle tangent tables = block-diagonal assembly of the element tables."""
    try:
        TB_ = RT.extract(F, variant)
    except C.AnalysisBroken as e:
        rep.broke(str(e))
        return 0
    el_tables = []
    cache = {}
    for g in layout:
        # the element group's own tables come from the element's own all-API driver
        if g not in cache:
            try:
                cache[g] = RT.extract(FX.get(g), g)
            except C.AnalysisBroken as e:
                rep.broke(str(e))
                return 0
        el_tables.append(cache[g])
    dof_off, dof_tot = prefix(layout, 1)
    alg_off, alg_tot = prefix(layout, 3)
    n = 0

    def F_(site, msg, f):
        return C.Finding("C11", "R-TABLE.placement", "%s:%s" % (TB_.name, site), msg, f["file"], f["line"])

    def ren(aff, off):
        if not isinstance(aff, S.Aff):
            return aff
        return S.Aff(aff.c, {"c%d" % (int(k[1:]) + off): v for k, v in aff.t.items()})

    # hat / smallAdj / InnerWeights: block diagonal with renamed coefficient symbols, exact zeros elsewhere
    for what, offs, tot, getter in (("hat", alg_off, alg_tot, lambda T: T.H), ("smallAdj", dof_off, dof_tot, lambda T: T.smallAdj),
                                    ("InnerWeights", dof_off, dof_tot, lambda T: T.W)):
        big = getter(TB_)
        if big is None or (big.R, big.C) != (tot, tot):
            rep.fail(F_(what, "%s has shape %s, expected %dx%d" % (what, (big.R, big.C) if big else None, tot, tot), TB_.f_hat))
            continue
        want = S.Mat(tot, tot, S.Aff(0))
        for ei, T in enumerate(el_tables):
            m = getter(T)
            for r in range(m.R):
                for c in range(m.C):
                    want.set(offs[ei] + r, offs[ei] + c, ren(m.get(r, c), dof_off[ei]))
        for r in range(tot):
            for c in range(tot):
                n += 1
                g, w = big.get(r, c), want.get(r, c)
                rep.obligation(g == w, lambda what=what, r=r, c=c, g=g, w=w: F_(
                    "%s(%d,%d)" % (what, r, c), "Bundle %s()(%d,%d) = %r; element-wise assembly gives %r" % (what, r, c, g, w), TB_.f_hat))
    # generators: E_bundle(dof_off[e] + i) = element generator i placed at alg_off[e]
    for ei, T in enumerate(el_tables):
        for i in range(T.dof):
            got = RT.const_matrix(TB_.E[dof_off[ei] + i]) if TB_.E[dof_off[ei] + i] is not None else None
            el = RT.const_matrix(T.E[i])
            ok = got is not None and el is not None
            if ok:
                for r in range(alg_tot):
                    for c in range(alg_tot):
                        rr_, cc_ = r - alg_off[ei], c - alg_off[ei]
                        w = el[rr_][cc_] if 0 <= rr_ < len(el) and 0 <= cc_ < len(el) else 0
                        if got[r][c] != w:
                            ok = False
            n += 1
            rep.obligation(ok, lambda ei=ei, i=i: F_("Generator(%d)" % (dof_off[ei] + i),
                           "Bundle generator %d is not generator %d of element %d placed at its offset" % (dof_off[ei] + i, i, ei), TB_.f_gen))
    # vee: picks element vee entries at the element's algebra offset
    for ei, T in enumerate(el_tables):
        for i in range(T.dof):
            g = TB_.vee.get(dof_off[ei] + i, 0)
            e = T.vee.get(i, 0)
            w = S.Aff(e.c, {"m_%d_%d" % (int(k.split("_")[1]) + alg_off[ei], int(k.split("_")[2]) + alg_off[ei]): v for k, v in e.t.items()}) if isinstance(e, S.Aff) else e
            n += 1
            rep.obligation(g == w, lambda ei=ei, i=i, g=g, w=w: F_("Vee[%d]" % (dof_off[ei] + i), "Bundle Vee component = %r, element-wise gives %r" % (g, w), TB_.f_vee))
    return n


def extract_for_key(F, key):
    """RT.extract for an explicit owning tangent type (element of a bundle)."""
    base = key.split("<")[0].split("::")[-1]
    if base == "RnTangent":
        v = "R" + key.rstrip(">").split(",")[-1]
    else:
        v = base[:-7]
    return RT.extract(F, v, key=key)


def element_views(rep, layouts_):
    n = 0
    for variant, layout in layouts_:
        rr = O.run([dict(variant=variant, kind="own"), dict(variant=variant, kind="map")])
        rep_off, rep_tot = prefix(layout, 2)
        dof_off, dof_tot = prefix(layout, 1)
        for vw in rr.views:
            if vw["cls"] not in ("manif::BundleBase", "manif::BundleTangentBase") or vw["short"] != "element":
                continue
            n += 1
            offs, tot, sizes = (rep_off, rep_tot, [SIZES[g][2] for g in layout]) if vw["cls"] == "manif::BundleBase" else (dof_off, dof_tot, [SIZES[g][1] for g in layout])
            ok = vw["k"] in offs and vw["host"] == tot and vw["view"] == sizes[offs.index(vw["k"])] if vw["k"] in offs else False
            # two elements of size 0 never occur; offsets are strictly increasing so index() is unambiguous
            rep.obligation(ok, lambda vw=vw: C.Finding("C11", "R-PTR", "%s@+%s" % (vw["fn"], vw["k"]),
                           "element view at offset %s of size %s inside a buffer of %s scalars does not coincide with an element's coefficients" % (vw["k"], vw["view"], vw["host"]),
                           vw["file"], vw["line"]))
            rep.obligation((not vw["const_method"]) or vw["view_const"], lambda vw=vw: C.Finding(
                "C11", "R-PTR.const", vw["fn"], "const element<i>() hands out a mutable view", vw["file"], vw["line"]))
    return n


def run(args):
    rep = C.Report("C11", "proof", "constant-evaluated offset witnesses + exact symbolic placement + definite-assignment/exact-zero dataflow on Bundle")
    work = C.scratch("c11")
    n_off = offset_witnesses(rep, work)
    variants = [("B1", W.BUNDLE_LAYOUTS["B1"])]
    if C.tier() == "thorough":
        variants += [("B2", W.BUNDLE_LAYOUTS["B2"]), ("B3", W.BUNDLE_LAYOUTS["B3"])]
    n_shapes, n_place, n_agree = 0, 0, 0
    seen = set()
    for v, lay in variants:
        k, s_ = jacobian_shapes(rep, v, lay)
        n_shapes += k
        seen |= s_
        F = FX.get(v)
        n_place += table_placement(rep, F, v, lay)
        n_agree += op_agreement(rep, F)
    n_views = element_views(rep, variants)
    rep.floor("offset_static_asserts", n_off, 1000)
    rep.floor("jacobian_matrices", n_shapes, 20)
    rep.floor("placement_cells", n_place, 1000)
    rep.floor("pack_elements_checked", n_agree, 40)
    rep.floor("element_views", n_views, 16)
    for need in ("inverse", "log", "compose", "act", "exp", "adj_impl", "rjac_impl", "ljac_impl", "rjacinv_impl", "ljacinv_impl", "smallAdj_impl"):
        if need not in seen:
            rep.broke("anchor vanished: no Jacobian shape recorded for Bundle %s" % need)
    rep.rules = [
        "C11.a: DimIdx/DoFIdx/RepSizeIdx/TraIdx/AlgIdx are the exclusive prefix sums of the element sizes and the totals are the sums, for %d generated layouts (static_assert, decided by the compiler)" % len(layouts()),
        "C11.b/f: hat, smallAdj, InnerWeights, Generator(i), Vee of the Bundle equal the block-diagonal assembly of the element groups' own tables at independently computed offsets (exact, over Q)",
        "C11.c: X_impl calls X itself on element<i>() and uses offset-table index i for that element's block",
        "C11.d: every Jacobian-typed result/output of inverse, log, compose, act, exp, adj, rjac, ljac, rjacinv, ljacinv, smallAdj (and hat, transform) is fully written inside the element blocks and provably exactly zero outside",
        "C11.e: element<i>() is Map<[const] Element<i>> at RepSizeIdx[i] (DoFIdx[i] for tangents), inside the buffer, const-correct",
    ]
    rep.units = ["B1 (SE2,SO3,R4,SGal3): Dim/DoF/RepSize/Alg/Tra prefix sums pairwise distinguishable"] + [v for v, _ in variants]
    rep.trusted = ["clang constant evaluation", "documented element sizes table (engine/check_c11.py SIZES), cross-checked by the static_asserts on Element<i> and totals",
                   "Eigen block semantics", "element operations themselves (other properties)"]
    rep.checker_cmd = "clang++ -fsyntax-only (static_assert TU) ; manif-sa plugin + engine/symeval.py + engine/rules_out.py"
    return rep.finish()
