"""Compact s-expression rendering of exported AST nodes (debugging, structural term equality)."""
from . import astq as A


def sexp(n, depth=0, maxdepth=40):
    if n is None:
        return "nil"
    if not isinstance(n, dict):
        return str(n)
    if depth > maxdepth:
        return "..."
    k = n.get("k", "?")
    d = depth + 1
    if k == "DeclRefExpr":
        return n.get("qn") or n["name"]
    if k in ("IntegerLiteral", "FloatingLiteral", "CXXBoolLiteralExpr"):
        return str(n.get("txt", n.get("v")))
    if k == "CXXThisExpr":
        return "this"
    if k == "MemberExpr":
        b = (n.get("ch") or [None])[0]
        return "%s%s%s" % (sexp(b, d), "->" if n.get("arrow") else ".", n["name"])
    if k in A.CALL_KINDS:
        fn, obj, args = A.call_parts(n)
        name = A.short(fn) if fn else "?"
        if n.get("targs") and k != "CXXConstructExpr":
            ints = [str(t) for t in n["targs"] if isinstance(t, int)]
            if ints:
                name += "<" + ",".join(ints) + ">"
        if k == "CXXOperatorCallExpr":
            name = "op" + n.get("op", "?")
        parts = ([sexp(obj, d)] if obj is not None else []) + [sexp(a, d) for a in args]
        return "(%s %s)" % (name, " ".join(parts)) if parts else "(%s)" % name
    if k in ("UnaryOperator",):
        return "(%s %s)" % (n["op"], sexp(n["ch"][0], d))
    if k in ("BinaryOperator", "CompoundAssignOperator"):
        return "(%s %s %s)" % (n["op"], sexp(n["ch"][0], d), sexp(n["ch"][1], d))
    if k == "IfStmt":
        return "(if %s %s %s)" % (sexp(n.get("cond"), d), sexp(n.get("then"), d), sexp(n.get("else"), d))
    if k == "ReturnStmt":
        return "(return %s)" % sexp(n.get("e"), d)
    if k == "DeclStmt":
        return "(decl %s)" % " ".join(sexp(x, d) for x in n.get("decls", []))
    if k == "VarDecl":
        return "(%s%s := %s)" % ("static " if n.get("static") else "", n["name"], sexp(n.get("init"), d))
    if k == "CompoundStmt":
        return "{ %s }" % " ; ".join(sexp(c, d) for c in n.get("ch", []))
    extra = n.get("name") or n.get("op") or n.get("tyw") or ""
    cs = list(A.children(n))
    return "(%s%s%s)" % (k, ":" + extra if extra else "", "".join(" " + sexp(c, d) for c in cs))
