"""R-SERIES: the closed-form arms, expanded as Taylor jets at t -> 0, must reproduce the defining series
(DESIGN.md section 10.6):

   T(exp t)   = I + hat t + hat(t)^2/2 + hat(t)^3/6                 + O(|t|^4)      (C02)
   log(exp t) = t                                                   + O(|t|^4)      (C03)
   rjac(t)    = I - ad/2 + ad^2/6,   ljac(t) = I + ad/2 + ad^2/6    + O(|t|^3)      (C06)
   rjacinv(t) = I + ad/2 + ad^2/12,  ljacinv(t) = I - ad/2 + ad^2/12 + O(|t|^3)     (C06)

with hat, ad = smallAdj the literal tables proved by C07.  The library code is interpreted in the
*expression* domain (cells are closed-form sympy expressions in the tangent coefficients; every
comparison with Constants::eps is resolved to the closed-form side), the coefficients are scaled by
e and the cells are expanded in e.  A wrong sign, factor or block in a closed form changes a
low-order jet and is reported with the cell and the order.  Errors that first appear at order >= 4
(resp. 3) are not seen; rounding is not modelled; nothing is executed numerically.
"""
import sympy as sp

from . import astq as A
from . import common as C
from . import facts as FX
from . import jetnum as J
from . import polyeval as P
from . import rules_table as RT
from . import symeval as S
from .check_c01 import find
from .sexp import sexp

EPSV = S.Fraction(100, 2 ** 52) if hasattr(S, "Fraction") else None
E = sp.Symbol("e", positive=True)

TAN = {  # variant -> (tangent class, group class, DoF, RepSize)
    "SO2": ("manif::SO2Tangent", "manif::SO2", 1, 2), "SE2": ("manif::SE2Tangent", "manif::SE2", 3, 4),
    "SO3": ("manif::SO3Tangent", "manif::SO3", 3, 4), "SE3": ("manif::SE3Tangent", "manif::SE3", 6, 7),
    "SE_2_3": ("manif::SE_2_3Tangent", "manif::SE_2_3", 9, 10), "SGal3": ("manif::SGal3Tangent", "manif::SGal3", 10, 11),
}


class AbsJet:
    """|x| of a non-constant jet: only meaningful as the quantity of a precision switch"""
    def __init__(self, jet):
        self.jet = jet


class AngleAxisVal:
    def __init__(self, angle, axis):
        self.angle, self.axis = angle, axis


EPS_OF = {"double": 100 * 2.0 ** -52, "float": 100 * 2.0 ** -23}


def theta_s(thr, k, scalar):
    """switch-over magnitude of `quantity (of valuation k in the rotation magnitude) < thr` for the scalar type"""
    eps_d = S.Fraction(100, 2 ** 52)
    if thr == eps_d:
        t = EPS_OF[scalar]
    elif thr == S.Fraction(10, 2 ** 26):
        t = EPS_OF[scalar] ** 0.5
    else:
        t = float(thr)
    return float("%.6g" % (t ** (1.0 / k)))


class SeriesSym(P.PolySym):
    """Jet-domain interpreter (engine/jetnum.py).  world = None: every precision switch on its closed-form side.
    world = theta (a float): the world that is active for rotation magnitudes just below theta - a switch whose
    switch-over magnitude theta_s is >= theta is on its small-angle side, every other one on its closed-form side."""
    world = None
    scalar = "double"

    def small_side(self, thr, k, node):
        ths = theta_s(thr, k, self.scalar)
        self.switches.add((thr, k, node.get("ln")))
        if self.world is None:
            return False
        return ths >= self.world * (1 - 1e-9)

    def ev(self, n, env):
        n0 = A.strip(n)
        if isinstance(n0, dict) and n0.get("k") == "BinaryOperator" and n0.get("op") in ("<", ">", "<=", ">="):
            a = S.scalarize(P.PolySym.ev(self, n0["ch"][0], env))
            b = S.scalarize(P.PolySym.ev(self, n0["ch"][1], env))
            if a is S.TOP or b is S.TOP:
                return S.TOP           # e.g. |norm - 1| of symbolic data vs eps: a validity test, left to the caller
            if isinstance(a, AbsJet):
                a = a.jet if J.split_eta(a.jet)[0].vz() >= 1 else S.TOP     # |x| < thr with x vanishing at the identity: a magnitude switch on x
            if isinstance(b, AbsJet):
                b = b.jet if J.split_eta(b.jet)[0].vz() >= 1 else S.TOP
            if a is S.TOP or b is S.TOP:
                return S.TOP
            def constify(x):
                if isinstance(x, J.JetNum) and x.is_const():
                    c0 = sp.nsimplify(x.c.get(0, sp.Integer(0)))
                    if c0.is_Rational:
                        return S.Aff(S.Fraction(int(c0.p), int(c0.q)))
                return x
            def unperturbed(x):
                """a comparison is decided at the unperturbed point: a jet that is zero there is the constant 0"""
                j_ = x.jet if isinstance(x, AbsJet) else x
                if isinstance(j_, J.JetNum) and J.NILPOTENT is not None and not J.split_eta(j_)[0].c:
                    return S.Aff(0)
                return x
            a, b = constify(unperturbed(a)), constify(unperturbed(b))

            def symbolic(x):
                return isinstance(x, J.JetNum) and not x.is_const()
            def threshold(x):      # a small positive constant (eps, eps_sqrt, a literal): a precision switch
                return isinstance(x, S.Aff) and x.is_const() and 0 < x.c <= S.Fraction(1, 100)
            def vanishing(x):
                return symbolic(x) and J.split_eta(x)[0].vz() >= 1       # a first-order perturbation does not move a switch
            if threshold(b) and vanishing(a):
                return (n0["op"] in ("<", "<=")) == self.small_side(b.c, max(1, J.split_eta(a)[0].vz()), n0)
            if threshold(a) and vanishing(b):
                return (n0["op"] in (">", ">=")) == self.small_side(a.c, max(1, J.split_eta(b)[0].vz()), n0)
            if isinstance(a, (S.Aff, S.Poly)) and isinstance(b, (S.Aff, S.Poly)) and (symbolic(a) or symbolic(b)):
                # sign conditions on symbolic data (cos_angle < 0): decided by the value at the identity when it is non-zero
                d = J.add(a, b, -1)
                if d.val() == 0 and d.c[0].is_number and d.c[0] != 0:
                    d0 = d.c[0]
                    return bool({"<": d0 < 0, "<=": d0 <= 0, ">": d0 > 0, ">=": d0 >= 0}[n0["op"]])
                if set(d.c) <= {0}:
                    return S.TOP        # a free parameter (interpolation factor ...) against a constant: an argument check, left to the caller
                raise S.Unsupported("comparison of jets not decided at the identity: %s" % sexp(n0)[:80])
            return self.arith(n0["op"], a, b)
        return P.PolySym.ev(self, n, env)

    def extra_call(self, n, env, k, fn, obj, args, name, cls, dim):
        if not cls and name in ("cos", "sin", "sqrt", "abs", "atan2", "atan", "tan", "acos", "asin") and args:
            vals = [S.scalarize(self.ev(a, env)) for a in args]
            if all(isinstance(v, (S.Aff, S.Poly)) for v in vals) and any(isinstance(v, J.JetNum) for v in vals):
                try:
                    if name == "atan2":
                        # around the identity the second argument (a cosine) is positive: atan2(y, x) = atan(y / x)
                        x = J.lift(vals[1])
                        if not (x.val() == 0 and x.c[0].is_number and x.c[0] > 0):
                            raise S.Unsupported("atan2 with a second argument not positive at the identity")
                        return J.atan(J.div(vals[0], vals[1]))
                    if name in ("cos", "sin", "sqrt", "atan"):
                        return getattr(J, name)(vals[0])
                    if name == "abs":
                        j_ = J.lift(vals[0])
                        if j_.is_const():
                            c0 = j_.c.get(0, sp.Integer(0))
                            return J.JetNum({0: sp.Abs(c0)}) if c0.is_number else S.TOP
                        return AbsJet(j_)
                except (ValueError, ZeroDivisionError) as ex:
                    raise S.Unsupported("%s: %s" % (name, ex))
                raise S.Unsupported("%s of a jet" % name)
        if cls.startswith("Eigen::") and name == "isZero" and obj is not None:
            m = S.as_mat(self.ev(obj, env))
            if m is not None and all(isinstance(x, (S.Aff, S.Poly)) for x in m.cells):
                cells = [J.lift(x) for x in m.cells]
                if all(not c_.c for c_ in cells):
                    return True
                syms = set()
                for c_ in cells:
                    for v_ in c_.c.values():
                        syms |= {str(y) for y in v_.free_symbols}
                pure = all(set(c_.c) <= {1} and (not c_.c or c_.c[1].is_Symbol) for c_ in cells)
                if pure and hasattr(self, "zero_requests"):
                    self.zero_requests.add(frozenset(syms))
                    return False        # generic point; the world in which these inputs vanish is evaluated separately
                raise S.Unsupported("isZero() of computed symbolic data")
        if cls.startswith("Eigen::") and name in ("squaredNorm", "norm", "normalized") and obj is not None:
            m = S.as_mat(self.ev(obj, env))
            if m is not None and all(isinstance(x, (S.Aff, S.Poly)) for x in m.cells) and any(isinstance(x, J.JetNum) for x in m.cells):
                sq = J.JetNum({})
                for x in m.cells:
                    sq = J.add(sq, J.mul(x, x))
                if name == "squaredNorm":
                    return sq
                nr = J.sqrt(sq)
                if name == "norm":
                    return nr
                o = S.Mat(m.R, m.C)
                o.cells = [J.div(x, nr) for x in m.cells]
                return o
        if cls.startswith("Eigen::") and name == "inverse" and obj is not None and not args:
            m = S.as_mat(self.ev(obj, env))
            if m is not None and m.R == m.C and all(isinstance(x, (S.Aff, S.Poly)) for x in m.cells):
                return neumann_inverse(self, m)
        if cls.startswith("Eigen::AngleAxis"):
            if k in ("CXXConstructExpr", "CXXTemporaryObjectExpr"):
                real = [a for a in args if not (isinstance(a, dict) and a.get("k") == "CXXDefaultArgExpr")]
                vals = [self.ev(a, env) for a in real]
                if len(vals) == 2:
                    return AngleAxisVal(S.scalarize(vals[0]), S.as_mat(vals[1]))
                if len(vals) == 1 and isinstance(vals[0], AngleAxisVal):
                    return vals[0]
        if cls.startswith("Eigen::Quaternion") and k in ("CXXConstructExpr", "CXXTemporaryObjectExpr"):
            real = [a for a in args if not (isinstance(a, dict) and a.get("k") == "CXXDefaultArgExpr")]
            if len(real) == 1:
                v = self.ev(real[0], env)
                if isinstance(v, AngleAxisVal) and v.axis is not None:
                    # Eigen: q = (axis * sin(angle/2), cos(angle/2))
                    h = J.mul(v.angle, S.Aff(S.Fraction(1, 2)))
                    sh, ch = J.sin(h), J.cos(h)
                    ax = v.axis.cells
                    return P.Quat(J.mul(ax[0], sh), J.mul(ax[1], sh), J.mul(ax[2], sh), ch)
        return P.PolySym.extra_call(self, n, env, k, fn, obj, args, name, cls, dim)


NEUMANN = 4


def neumann_inverse(sym, m):
    """Eigen's inverse() of M = I + U with U = O(e): the unique inverse is sum_k (-U)^k, cut after k = NEUMANN
    (the cells are then known through order NEUMANN)."""
    n = m.R
    U = S.Mat(n, n)
    for r in range(n):
        for c in range(n):
            x = J.lift(m.get(r, c))
            if r == c:
                x = J.add(x, S.Aff(1), -1)
            if x.vz() < 1:
                raise S.Unsupported("inverse() of a matrix that is not the identity at the origin")
            x = J.JetNum(x.c, min(x.p, NEUMANN))       # only orders <= NEUMANN are used: keep the products small
            U.set(r, c, x if x.c else S.Aff(0))
    acc = S.Mat(n, n, S.Aff(0))
    for r in range(n):
        acc.set(r, r, S.Aff(1))
    term = acc
    for kk in range(1, NEUMANN + 1):
        term = sym.arith("*", term, U)
        acc = sym.arith("+" if kk % 2 == 0 else "-", acc, term)
    out = S.Mat(n, n)
    out.cells = [J.JetNum(J.lift(x).c, min(J.lift(x).p, NEUMANN)) for x in acc.cells]
    return out


def mat_jets(m):
    rows = []
    for r in range(m.R):
        row = []
        for c in range(m.C):
            x = m.get(r, c)
            if not isinstance(x, (S.Aff, S.Poly)):
                return None
            row.append(J.lift(x))
        rows.append(row)
    return rows


TOL = {"double": {"value": 1e-9, "jac": 1e-7}, "float": {"value": 1e-4, "jac": 1e-3}}      # as R-JET


def analyse(rep, prop, v, what, order_exp=5, order_jac=4, world=None, scalar="double", switches_out=None, also=(), zero=frozenset()):
    """what: subset of {'exp','log','expjac','logjac','adjexp','rjac','ljac','rjacinv','ljacinv'}"""
    what = set(what)
    tcls, gcls, dof, rep_n = TAN[v]
    F = FX.get(v)
    TT = RT.extract(F, v)
    own_t, own_g = tcls + "<double>", gcls + "<double>"
    old = S.POLY, S.JET
    S.POLY, S.JET = "expr", J
    n_obl = 0
    try:
        sym = SeriesSym(F)
        sym.switches = set()
        sym.world, sym.scalar = world, scalar
        cs = [sp.Symbol("c%d" % i) for i in range(dof)]
        m = S.Mat(dof, 1)
        m.cells = [(J.JetNum({1: c}) if str(c) not in zero else S.Aff(0)) for c in cs]
        sym.zero_requests = set()
        ztag = "" if not zero else " [input world %s = 0]" % " = ".join(sorted(zero))
        t = S.Obj(S.View(m, 0, 0, dof, 1))
        zsub = {sp.Symbol(z): 0 for z in zero}
        H = sp.Matrix([[S.to_sym(TT.H.get(r, c)) for c in range(TT.H.C)] for r in range(TT.H.R)]).subs(zsub)
        AD = sp.Matrix([[S.to_sym(TT.smallAdj.get(r, c)) for c in range(dof)] for r in range(dof)]).subs(zsub)
        Idof = sp.eye(dof)
        rdim = 2 if v in ("SO2", "SE2") else 3
        angular = sorted({cs.index(x) for r in range(rdim) for c in range(rdim) for x in H[r, c].free_symbols if x in cs})   # rotation block of hat
        if len(angular) != (1 if rdim == 2 else 3):
            raise C.AnalysisBroken("R-SERIES: cannot identify the angular coefficients of %s from its hat table (%s)" % (v, angular))

        def F_(rule, site, msg, f):
            return C.Finding(prop, rule, "%s:%s%s" % (own_t, site, ztag), msg + ztag, f["file"], f["line"])

        def ev(f, this, argv, whatf):
            try:
                return sym.call_function(f, this, argv)
            except (S.Unsupported, S.Raised) as ex:
                raise C.AnalysisBroken("R-SERIES cannot interpret %s of %s: %s" % (whatf, own_t, ex))

        def compare(name, got, want, order, f):
            """got: rows of JetNum; want: sympy Matrix, graded polynomial in cs (degree = order in e)"""
            nonlocal n_obl
            for r in range(want.shape[0]):
                for c in range(want.shape[1]):
                    n_obl += 1
                    try:
                        g = J.truncate(got[r][c], order)
                    except ValueError as ex:
                        raise C.AnalysisBroken("R-SERIES: %s(%d,%d) of %s: %s (raise jetnum.ORDER)" % (name, r, c, v, ex))
                    bad = None
                    bad_scalar = scalar
                    if any(k < 0 for k in g):
                        bad = "a pole of order %d at the identity" % -min(g)
                    else:
                        wp = sp.Poly(sp.expand(want[r, c]), *cs) if want[r, c] != 0 else None
                        for kk in range(order + 1):
                            wk = sum((coef * sp.prod([x ** e for x, e in zip(cs, mon)]) for mon, coef in wp.terms() if sum(mon) == kk), sp.Integer(0)) if wp is not None else sp.Integer(0)
                            d = J.simp(g.get(kk, sp.Integer(0)) - wk)
                            if d != 0:
                                d = sp.simplify(d.subs({rr: sp.sqrt(rad) for rad, rr in J._roots.items()}))
                            if d != 0 and world is not None:
                                # small-angle world: a neglected term of angular degree a contributes at most theta^a
                                # (relative to the non-angular components) below the switch-over magnitude `world`
                                try:
                                    dp = sp.Poly(d, *cs)
                                except sp.PolynomialError:
                                    raise C.AnalysisBroken("R-SERIES.small: non-polynomial residual in %s(%d,%d) of %s" % (name, r, c, v))
                                for sc_, th_ in ((scalar, world),) + tuple(also):
                                    tol_ = TOL[sc_][clause_of(name)]
                                    low = []
                                    for mon, coef in dp.terms():
                                        a_ = sum(mon[i] for i in angular)
                                        if not coef.is_number:
                                            raise C.AnalysisBroken("R-SERIES.small: symbolic coefficient in the residual of %s(%d,%d) of %s" % (name, r, c, v))
                                        if abs(float(coef)) * th_ ** a_ > tol_:
                                            low.append((mon, coef, a_))
                                    if low:
                                        mon, coef, a_ = low[0]
                                        bad = "order %d: the code on the small-angle side omits / alters the term %s (angular degree %d: error up to %.1e relative to the non-angular components just below the switch-over |theta| = %.3g in %s, tolerance %.0e)" % (
                                            kk, str(coef * sp.prod([x ** e for x, e in zip(cs, mon)]))[:80], a_, abs(float(coef)) * th_ ** a_, th_, sc_, tol_)
                                        bad_scalar = sc_
                                        break
                                if bad:
                                    break
                                continue
                            if d != 0:
                                bad = "order %d: closed form %s, series %s" % (kk, str(g.get(kk, 0))[:70], str(wk)[:70])
                                break
                    rule = "R-SERIES." + name if world is None else "R-SERIES.small." + name
                    tag = "" if world is None else ":%s" % (bad_scalar if bad else scalar)
                    rep.obligation(bad is None, lambda r=r, c=c, bad=bad: F_(
                        rule, "%s(%d,%d)%s" % (name, r, c, tag),
                        "the Taylor jet (through order %d in the tangent) of %s at (%d,%d) differs from the defining series: %s" % (order, name, r, c, bad), f))

        def clause_of(name):
            return "value" if name in ("exp", "log") else "jac"
        def ad_series(coef):
            out, P_ = sp.zeros(dof, dof), sp.eye(dof)
            for kk in range(order_jac + 1):
                out = out + coef(kk) * P_
                P_ = (P_ * AD).applyfunc(sp.expand)
            return out
        # Jl = sum ad^k/(k+1)!,  Jr = sum (-ad)^k/(k+1)!,  Jl^-1 = sum B_k ad^k/k!,  Jr^-1 = sum B_k (-ad)^k/k!   (B_1 = -1/2)
        bern = lambda kk: sp.bernoulli(kk) * (-1 if kk == 1 and sp.bernoulli(1) > 0 else 1)
        series = {"rjac": lambda: ad_series(lambda kk: sp.Integer(-1) ** kk / sp.factorial(kk + 1)),
                  "ljac": lambda: ad_series(lambda kk: sp.Integer(1) / sp.factorial(kk + 1)),
                  "rjacinv": lambda: ad_series(lambda kk: sp.Integer(-1) ** kk * bern(kk) / sp.factorial(kk)),
                  "ljacinv": lambda: ad_series(lambda kk: bern(kk) / sp.factorial(kk))}

        if what & {"exp", "log", "expjac", "logjac", "adjexp"}:
            f_exp = find(F, tcls + "Base", "exp", own_t)
            f_T = find(F, gcls + "Base", "transform", own_g)
            if f_exp is None or f_T is None:
                raise C.AnalysisBroken("anchor vanished: exp / transform of %s" % v)
            if "expjac" in what:
                Je = S.Mat(dof, dof)
                X = ev(f_exp, t, [S.View(Je, 0, 0, dof, dof)], "exp(J)")
                got = mat_jets(Je)
                if got is None:
                    raise C.AnalysisBroken("R-SERIES: the Jacobian written by exp of %s has an unwritten / non-symbolic cell" % v)
                compare("expjac", got, series["rjac"](), order_jac, f_exp)
            else:
                X = ev(f_exp, t, [None], "exp")
            if "adjexp" in what:
                f_adj = find(F, gcls + "Base", "adj", own_g)
                if f_adj is None:
                    raise C.AnalysisBroken("anchor vanished: adj of %s" % v)
                got = mat_jets(S.as_mat(ev(f_adj, X, [], "adj(exp)")))
                if got is None:
                    raise C.AnalysisBroken("R-SERIES: adj(exp(t)) of %s has a non-symbolic cell" % v)
                compare("adjexp", got, ad_series(lambda kk: sp.Integer(1) / sp.factorial(kk)), order_jac, f_adj)
            if "logjac" in what:
                f_log = find(F, gcls + "Base", "log", own_g)
                if f_log is None:
                    raise C.AnalysisBroken("anchor vanished: log of %s" % v)
                Jl_ = S.Mat(dof, dof)
                ev(f_log, X, [S.View(Jl_, 0, 0, dof, dof)], "log(exp, J)")
                got = mat_jets(Jl_)
                if got is None:
                    raise C.AnalysisBroken("R-SERIES: the Jacobian written by log of %s has an unwritten / non-symbolic cell" % v)
                compare("logjac", got, series["rjacinv"](), order_jac, f_log)
            if "exp" in what:
                TX = mat_jets(S.as_mat(ev(f_T, X, [], "transform(exp)")))
                if TX is None:
                    raise C.AnalysisBroken("R-SERIES: transform(exp(t)) of %s has a non-symbolic cell" % v)
                n = len(TX)
                Hp = sp.zeros(n, n)
                for r in range(H.shape[0]):
                    for c in range(H.shape[1]):
                        Hp[r, c] = H[r, c]
                want = sp.eye(n)
                term = sp.eye(n)
                for kk in range(1, order_exp + 1):
                    term = (term * Hp / kk).applyfunc(sp.expand)
                    want = want + term
                compare("exp", TX, want, order_exp, f_exp)
            if "log" in what:
                f_log = find(F, gcls + "Base", "log", own_g)
                if f_log is None:
                    raise C.AnalysisBroken("anchor vanished: log of %s" % v)
                tl = ev(f_log, X, [None], "log(exp)")
                got = mat_jets(tl.coeffs.mat())
                if got is None:
                    raise C.AnalysisBroken("R-SERIES: log(exp(t)) of %s has a non-symbolic cell" % v)
                compare("log", got, sp.Matrix(cs), order_exp, f_log)
        for name, mk in series.items():
            if name not in what:
                continue
            want = mk()
            f = find(F, tcls + "Base", name, own_t)
            if f is None:
                f = find(F, "manif::TangentBase", name, own_t)
            if f is None:
                raise C.AnalysisBroken("anchor vanished: %s of %s" % (name, v))
            got = mat_jets(S.as_mat(ev(f, t, [], name)))
            if got is None:
                raise C.AnalysisBroken("R-SERIES: %s of %s has a non-symbolic cell" % (name, v))
            compare(name, got, want, order_jac, f)
    finally:
        S.POLY, S.JET = old
        if switches_out is not None:
            switches_out |= sym.switches
    # data-dependent `x.isZero()` tests on input coefficients: the generic world took them as false; evaluate the other side
    if not zero and world is None:
        for Z in sorted(sym.zero_requests, key=sorted)[:4]:
            n_obl += analyse(rep, prop, v, what, order_exp, order_jac, None, scalar, None, (), frozenset(Z))
    return n_obl


class _Collector:
    def __init__(self):
        self.n_ok, self.findings = 0, []

    def obligation(self, holds, mk):
        if holds:
            self.n_ok += 1
        else:
            self.findings.append(mk())


def _worker(job):
    repo, prop, v, what, oe, oj, small = job
    if repo != C.REPO:
        C.set_repo(repo)
    J.ORDER = max(9, max(oe, oj) + 6)       # margin for the divisions by e^k (k <= 6) in the closed forms
    col = _Collector()
    worlds = []
    try:
        sw = set()
        n = analyse(col, prop, v, set(what), oe, oj, None, "double", sw)
        if small:
            keys = sorted({(thr, k) for thr, k, _ in sw}, key=lambda tk: theta_s(tk[0], tk[1], "double"))
            order_f = sorted(keys, key=lambda tk: theta_s(tk[0], tk[1], "float"))
            th_d = sorted({theta_s(t_, k_, "double") for t_, k_ in keys})
            th_f = sorted({theta_s(t_, k_, "float") for t_, k_ in keys})
            same_partition = len(th_d) == len(th_f) and all(
                {tk for tk in keys if theta_s(tk[0], tk[1], "double") >= a * (1 - 1e-9)} == {tk for tk in keys if theta_s(tk[0], tk[1], "float") >= b * (1 - 1e-9)}
                for a, b in zip(th_d, th_f))
            runs = [("double", a, (("float", b),)) for a, b in zip(th_d, th_f)] if same_partition else \
                   [("double", a, ()) for a in th_d] + [("float", b, ()) for b in th_f]
            for scalar, th, also in runs:
                sw2 = set()
                n += analyse(col, prop, v, set(what), oe, oj, th, scalar, sw2, also)
                worlds.append((scalar, th))
                for sc_, th_ in also:
                    worlds.append((sc_, th_))
                new = {(t_, k_) for t_, k_, _ in sw2} - {(t_, k_) for t_, k_, _ in sw}
                if new:
                    raise C.AnalysisBroken("R-SERIES.small: %s of %s reaches a precision switch only on a small-angle side (%s): extend the world enumeration" % (what, v, sorted(new)))
    except C.AnalysisBroken as ex:
        return v, what, 0, col.n_ok, col.findings, str(ex), worlds
    except (ArithmeticError, ValueError, TypeError, KeyError, AttributeError, RecursionError) as ex:
        return v, what, 0, col.n_ok, col.findings, "R-SERIES: interpreter error on %s/%s: %r" % (v, what, ex), worlds
    return v, what, n, col.n_ok, col.findings, None, worlds


def check(rep, prop, what, variants=None, order_exp=5, order_jac=4):
    """Runs `analyse` for every variant in its own process; returns the number of cells compared."""
    import multiprocessing as mp
    variants = list(variants or TAN)
    FX.get(variants[0])     # plugin / cache sanity in the parent (fails early with a clear message)
    jobs = []
    deep = C.tier() == "thorough"
    INVERSES = {"rjacinv", "ljacinv", "logjac"}     # rational-function heavy: keep the quick orders
    for v in variants:
        for w in sorted(what):     # one process per (group, function)
            oe, oj = order_exp, order_jac
            if deep and w not in INVERSES:
                oe, oj = order_exp + 2, order_jac + 2
            small = deep or not (w in INVERSES and TAN[v][2] >= 9)     # 9x9 / 10x10 Neumann inverses: small-angle worlds in the thorough tier only
            jobs.append((C.REPO, prop, v, [w], oe, oj, small))
    jobs.sort(key=lambda j: -TAN[j[2]][2])
    ctx = mp.get_context("fork")
    with ctx.Pool(min(len(jobs), 12)) as pool:
        res = pool.map(_worker, jobs, chunksize=1)
    total = 0
    rep.section("series", tier=C.tier(), jobs=[{"variant": j[2], "function": j[3][0], "order": (j[4] if j[3][0] in ("exp", "log") else j[5]), "small_angle_worlds": j[6]} for j in jobs],
                worlds=sorted({"%s:%.3g" % w for r_ in res for w in r_[6]}))
    for v, w_, n, n_ok, findings, broke, worlds in res:
        if broke:
            rep.broke(broke)
        rep.ok(n_ok)
        for f in findings:
            rep.fail(f)
        total += n
        if len([x for x in rep.samples if isinstance(x, dict) and x.get("rule") == "R-SERIES"]) < 6:
            rep.sample({"rule": "R-SERIES", "variant": v, "cells_compared": n})
    return total


def slerp_semantic(v, order=3):
    """Semantic form of C15's SLERP clause, independent of how the routine is spelled: with A = exp(e x), B = A exp(e y)
    (every near-identity pair) and a symbolic parameter tau, the matrix of interpolate_slerp(A, B, tau) equals
    T(A) * sum_k (tau e hat(y))^k / k!  through `order`, cell by cell.  Returns (ok, detail, cells)."""
    tcls, gcls, dof, rep_n = TAN[v]
    F = FX.get(v)
    TT = RT.extract(F, v)
    own_t, own_g = tcls + "<double>", gcls + "<double>"
    f = next((g for g in F.functions if g["kind"] == "inst" and g["short"] == "interpolate_slerp" and g.get("targs")
              and str(g["targs"][0]).replace(" ", "") == own_g.replace(" ", "") and g["targs"][1] == "double"), None)
    if f is None:
        raise C.AnalysisBroken("anchor vanished: interpolate_slerp<%s>" % own_g)
    old = S.POLY, S.JET, J.ORDER
    S.POLY, S.JET, J.ORDER = "expr", J, order + 6
    try:
        sym = SeriesSym(F)
        sym.switches = set()
        xs = [sp.Symbol("x%d" % i) for i in range(dof)]
        ys = [sp.Symbol("y%d" % i) for i in range(dof)]
        tau = sp.Symbol("tau")

        def tangent(cells):
            m = S.Mat(dof, 1)
            m.cells = list(cells)
            return S.Obj(S.View(m, 0, 0, dof, 1), own_t)

        def call(g, this, args, what):
            try:
                return sym.call_function(g, this, args)
            except (S.Unsupported, S.Raised) as ex:
                raise C.AnalysisBroken("R-SERIES.slerp cannot interpret %s of %s: %s" % (what, own_g, ex))
        f_exp = find(F, tcls + "Base", "exp", own_t)
        f_cmp = find(F, gcls + "Base", "compose", own_g, lambda g: str((g.get("targs") or [""])[0]).replace(" ", "") == own_g.replace(" ", ""))
        f_T = find(F, gcls + "Base", "transform", own_g)
        if not all((f_exp, f_cmp, f_T)):
            raise C.AnalysisBroken("anchor vanished: exp / compose / transform of %s" % v)
        A_ = call(f_exp, tangent(J.JetNum({1: x}) for x in xs), [None], "exp")
        B_ = call(f_cmp, A_, [call(f_exp, tangent(J.JetNum({1: y}) for y in ys), [None], "exp"), None, None], "compose")
        M = call(f, None, [A_, B_, J.JetNum({0: tau})], "interpolate_slerp")
        got = mat_jets(S.as_mat(call(f_T, M, [], "transform")))
        if got is None:
            raise C.AnalysisBroken("R-SERIES.slerp: transform(interpolate_slerp) of %s has a non-symbolic cell" % v)
        n = len(got)
        def hat_of(cs_):
            H = sp.Matrix([[S.to_sym(TT.H.get(r, c)) for c in range(TT.H.C)] for r in range(TT.H.R)])
            H = H.subs({sp.Symbol("c%d" % i): cs_[i] for i in range(dof)}, simultaneous=True)
            Hp = sp.zeros(n, n)
            for r in range(H.shape[0]):
                for c in range(H.shape[1]):
                    Hp[r, c] = H[r, c]
            return Hp
        def expm(Hm, scale):
            out, term = sp.eye(n), sp.eye(n)
            for kk in range(1, order + 1):
                term = (term * Hm * scale / kk).applyfunc(sp.expand)
                out = out + term
            return out
        E_ = sp.Symbol("E_")
        want = (expm(hat_of(xs), E_) * expm(hat_of(ys), E_ * tau)).applyfunc(sp.expand)
        cells = 0
        for r in range(n):
            for c in range(n):
                cells += 1
                g = J.truncate(got[r][c], order)
                wp = sp.Poly(want[r, c], E_)
                for kk in range(order + 1):
                    d = J.simp(g.get(kk, sp.Integer(0)) - wp.coeff_monomial(E_ ** kk))
                    if d != 0:
                        d = sp.simplify(d.subs({rr: sp.sqrt(rad) for rad, rr in J._roots.items()}))
                    if d != 0:
                        return False, "cell (%d,%d), order %d: T(slerp) has %s, T(A) expm(tau hat(log(A^-1 B))) has %s" % (r, c, kk, str(g.get(kk, 0))[:80], str(wp.coeff_monomial(E_ ** kk))[:80]), cells
        return True, "", cells
    finally:
        S.POLY, S.JET, J.ORDER = old
