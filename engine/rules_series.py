"""R-SERIES: the closed-form arms, expanded as Taylor jets at t -> 0, must reproduce the defining series
(DESIGN.md section 10.6):

   T(exp t)   = I + hat t + hat(t)^2/2 + hat(t)^3/6                 + O(|t|^4)      (C02)
   log(exp t) = t                                                   + O(|t|^4)      (C03)
   rjac(t)    = I - ad/2 + ad^2/6,   ljac(t) = I + ad/2 + ad^2/6    + O(|t|^3)      (C06)
   rjacinv(t) = I + ad/2 + ad^2/12,  ljacinv(t) = I - ad/2 + ad^2/12 + O(|t|^3)     (C06)

with hat, ad = smallAdj the literal tables proved by C07.  The library code is interpreted in the
*expression* domain (cells are closed-form sympy expressions in the tangent coefficients; every
comparison with Constants::eps is resolved to the closed-form side), the coefficients are scaled by
e and the cells are expanded in e.  A wrong sign, factor or block in a closed form changes a
low-order jet and is reported with the cell and the order.  Errors that first appear at order >= 4
(resp. 3) are not seen; rounding is not modelled; nothing is executed numerically.
"""
import sympy as sp

from . import astq as A
from . import common as C
from . import facts as FX
from . import polyeval as P
from . import rules_table as RT
from . import symeval as S
from .check_c01 import find
from .sexp import sexp

EPSV = S.Fraction(100, 2 ** 52) if hasattr(S, "Fraction") else None
E = sp.Symbol("e", positive=True)

TAN = {  # variant -> (tangent class, group class, DoF, RepSize)
    "SO2": ("manif::SO2Tangent", "manif::SO2", 1, 2), "SE2": ("manif::SE2Tangent", "manif::SE2", 3, 4),
    "SO3": ("manif::SO3Tangent", "manif::SO3", 3, 4), "SE3": ("manif::SE3Tangent", "manif::SE3", 6, 7),
    "SE_2_3": ("manif::SE_2_3Tangent", "manif::SE_2_3", 9, 10), "SGal3": ("manif::SGal3Tangent", "manif::SGal3", 10, 11),
}


class AngleAxisVal:
    def __init__(self, angle, axis):
        self.angle, self.axis = angle, axis


class SeriesSym(P.PolySym):
    """Expression-domain interpreter, closed-form world."""

    def ev(self, n, env):
        n0 = A.strip(n)
        if isinstance(n0, dict) and n0.get("k") == "BinaryOperator" and n0.get("op") in ("<", ">", "<=", ">=") \
                and "abs" not in sexp(n0):     # |norm - 1| vs eps is a validity / renormalisation test, not a magnitude switch
            a = S.scalarize(P.PolySym.ev(self, n0["ch"][0], env))
            b = S.scalarize(P.PolySym.ev(self, n0["ch"][1], env))
            eps = S.Aff(S.Fraction(100, 2 ** 52))
            def symbolic(x):
                return isinstance(x, S.Poly) or (isinstance(x, S.Aff) and not x.is_const())
            if b == eps and symbolic(a):
                return n0["op"] in (">", ">=")       # closed-form world: the rotation magnitude is above the threshold
            if a == eps and symbolic(b):
                return n0["op"] in ("<", "<=")
            if isinstance(a, (S.Aff, S.Poly)) and isinstance(b, (S.Aff, S.Poly)) and (symbolic(a) or symbolic(b)):
                # sign conditions on symbolic data (cos_angle < 0): the jet is taken around the identity, w > 0
                d = sp.limit((S.to_sym(a) - S.to_sym(b)).subs(self.scale), E, 0) if self.scale else None
                if d is not None and d.is_number and d != 0:
                    return {"<": d < 0, "<=": d <= 0, ">": d > 0, ">=": d >= 0}[n0["op"]]
            return self.arith(n0["op"], a, b)
        return P.PolySym.ev(self, n, env)

    scale = None

    def extra_call(self, n, env, k, fn, obj, args, name, cls, dim):
        if not cls and name in ("cos", "sin", "sqrt", "abs", "atan2", "tan", "acos", "asin") and args:
            vals = [S.scalarize(self.ev(a, env)) for a in args]
            if all(isinstance(v, (S.Aff, S.Poly)) for v in vals) and not all(isinstance(v, S.Aff) and v.is_const() for v in vals):
                sy = [S.to_sym(v) for v in vals]
                f = {"cos": sp.cos, "sin": sp.sin, "sqrt": sp.sqrt, "abs": sp.Abs, "tan": sp.tan, "acos": sp.acos, "asin": sp.asin}.get(name)
                if name == "atan2":
                    # around the identity the second argument (cos) is positive
                    return S.Poly(sp.atan(sy[0] / sy[1]))
                return S.Poly(f(sy[0]))
        if cls.startswith("Eigen::") and name in ("squaredNorm", "norm", "normalized") and obj is not None:
            m = S.as_mat(self.ev(obj, env))
            if m is not None and all(isinstance(x, (S.Aff, S.Poly)) for x in m.cells):
                sq = sum(S.to_sym(x) ** 2 for x in m.cells)
                if name == "squaredNorm":
                    return S.from_sym(sq)
                if name == "norm":
                    return S.Poly(sp.sqrt(sq))
                o = S.Mat(m.R, m.C)
                o.cells = [S.Poly(S.to_sym(x) / sp.sqrt(sq)) for x in m.cells]
                return o
        if cls.startswith("Eigen::AngleAxis"):
            if k in ("CXXConstructExpr", "CXXTemporaryObjectExpr"):
                real = [a for a in args if not (isinstance(a, dict) and a.get("k") == "CXXDefaultArgExpr")]
                vals = [self.ev(a, env) for a in real]
                if len(vals) == 2:
                    return AngleAxisVal(S.scalarize(vals[0]), S.as_mat(vals[1]))
                if len(vals) == 1 and isinstance(vals[0], AngleAxisVal):
                    return vals[0]
        if cls.startswith("Eigen::Quaternion") and k in ("CXXConstructExpr", "CXXTemporaryObjectExpr"):
            real = [a for a in args if not (isinstance(a, dict) and a.get("k") == "CXXDefaultArgExpr")]
            if len(real) == 1:
                v = self.ev(real[0], env)
                if isinstance(v, AngleAxisVal) and v.axis is not None:
                    h = S.to_sym(v.angle) / 2
                    ax = [S.to_sym(x) for x in v.axis.cells]
                    return P.Quat(S.Poly(ax[0] * sp.sin(h)), S.Poly(ax[1] * sp.sin(h)), S.Poly(ax[2] * sp.sin(h)), S.Poly(sp.cos(h)))
        r = P.PolySym.extra_call(self, n, env, k, fn, obj, args, name, cls, dim)
        return r


def jet(expr, order):
    """Taylor polynomial in E up to `order`, expanded."""
    if expr == 0:
        return sp.Integer(0)
    try:
        s = sp.series(expr, E, 0, order + 1).removeO()
    except Exception as ex:   # noqa
        raise C.AnalysisBroken("R-SERIES: cannot expand %s: %s" % (str(expr)[:120], ex))
    return sp.expand(sp.simplify(s))


def mat_expr(m):
    rows = []
    for r in range(m.R):
        row = []
        for c in range(m.C):
            x = m.get(r, c)
            if not isinstance(x, (S.Aff, S.Poly)):
                return None
            row.append(S.to_sym(x))
        rows.append(row)
    return sp.Matrix(rows)


def analyse(rep, prop, v, what, order_exp=3, order_jac=2):
    """what: subset of {'exp','log','rjac','ljac','rjacinv','ljacinv'}"""
    tcls, gcls, dof, rep_n = TAN[v]
    F = FX.get(v)
    TT = RT.extract(F, v)
    own_t, own_g = tcls + "<double>", gcls + "<double>"
    old = S.POLY
    S.POLY = "expr"
    n_obl = 0
    try:
        sym = SeriesSym(F)
        cs = [sp.Symbol("c%d" % i) for i in range(dof)]
        sym.scale = {c: E * c for c in cs}
        m = S.Mat(dof, 1)
        m.cells = [S.Aff.sym("c%d" % i) for i in range(dof)]
        t = S.Obj(S.View(m, 0, 0, dof, 1))
        sub = {c: E * c for c in cs}
        H = sp.Matrix([[S.to_sym(TT.H.get(r, c)) for c in range(TT.H.C)] for r in range(TT.H.R)])
        AD = sp.Matrix([[S.to_sym(TT.smallAdj.get(r, c)) for c in range(dof)] for r in range(dof)])
        Idof = sp.eye(dof)

        def F_(rule, site, msg, f):
            return C.Finding(prop, rule, "%s:%s" % (own_t, site), msg, f["file"], f["line"])

        def ev(f, this, argv, whatf):
            try:
                return sym.call_function(f, this, argv)
            except (S.Unsupported, S.Raised) as ex:
                raise C.AnalysisBroken("R-SERIES cannot interpret %s of %s: %s" % (whatf, own_t, ex))

        def compare(name, got, want, order, f):
            nonlocal n_obl
            for r in range(want.shape[0]):
                for c in range(want.shape[1]):
                    n_obl += 1
                    g = jet(got[r, c].subs(sub), order)
                    w = sp.expand(want[r, c].subs(sub))
                    w = sum(term for term in sp.Add.make_args(w) if sp.degree(term, E) <= order) if w != 0 else 0
                    d = sp.expand(g - w)
                    if d != 0:
                        d = sp.simplify(d)
                    rep.obligation(d == 0, lambda r=r, c=c, d=d: F_(
                        "R-SERIES." + name, "%s(%d,%d)" % (name, r, c),
                        "the Taylor jet (order %d in the tangent) of the closed form of %s at (%d,%d) differs from the defining series by %s" % (order, name, r, c, str(d.subs(E, 1))[:160]), f))

        if "exp" in what or "log" in what:
            f_exp = find(F, tcls + "Base", "exp", own_t)
            f_T = find(F, gcls + "Base", "transform", own_g)
            if f_exp is None or f_T is None:
                raise C.AnalysisBroken("anchor vanished: exp / transform of %s" % v)
            X = ev(f_exp, t, [None], "exp")
            if "exp" in what:
                TX = mat_expr(S.as_mat(ev(f_T, X, [], "transform(exp)")))
                if TX is None:
                    raise C.AnalysisBroken("R-SERIES: transform(exp(t)) of %s has a non-symbolic cell" % v)
                n = TX.shape[0]
                Hp = sp.zeros(n, n)
                for r in range(H.shape[0]):
                    for c in range(H.shape[1]):
                        Hp[r, c] = H[r, c]
                want = sp.eye(n) + Hp + Hp * Hp / 2 + Hp * Hp * Hp / 6
                compare("exp", TX, want, order_exp, f_exp)
            if "log" in what:
                f_log = find(F, gcls + "Base", "log", own_g)
                if f_log is None:
                    raise C.AnalysisBroken("anchor vanished: log of %s" % v)
                tl = ev(f_log, X, [None], "log(exp)")
                got = mat_expr(tl.coeffs.mat())
                if got is None:
                    raise C.AnalysisBroken("R-SERIES: log(exp(t)) of %s has a non-symbolic cell" % v)
                compare("log", got, sp.Matrix(cs), order_exp, f_log)
        series = {"rjac": Idof - AD / 2 + AD * AD / 6, "ljac": Idof + AD / 2 + AD * AD / 6,
                  "rjacinv": Idof + AD / 2 + AD * AD / 12, "ljacinv": Idof - AD / 2 + AD * AD / 12}
        for name, want in series.items():
            if name not in what:
                continue
            f = find(F, tcls + "Base", name, own_t)
            if f is None:
                f = find(F, "manif::TangentBase", name, own_t)
            if f is None:
                raise C.AnalysisBroken("anchor vanished: %s of %s" % (name, v))
            got = mat_expr(S.as_mat(ev(f, t, [], name)))
            if got is None:
                raise C.AnalysisBroken("R-SERIES: %s of %s has a non-symbolic cell" % (name, v))
            compare(name, got, want, order_jac, f)
    finally:
        S.POLY = old
    return n_obl
