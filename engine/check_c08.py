"""C08 - elements stay valid under arbitrarily long histories: presence and contraction of the
renormalisation mechanism on every path (DESIGN.md 3/C08).  The drift *bound* itself (accumulated
floating-point error over unbounded histories) is NOT decided."""
import re

import sympy as sp

from . import astq as A
from . import common as C
from . import facts as FX
from . import scalar_eval as SE
from .check_c02 import delegation
from .sexp import sexp

COMPOSE = {"SO2": "manif::SO2Base", "SE2": "manif::SE2Base", "SO3": "manif::SO3Base"}
DELEGATION = {("SE3", "manif::SE3Base"): {"compose"}, ("SE_2_3", "manif::SE_2_3Base"): {"compose"}, ("SGal3", "manif::SGal3Base"): {"compose"}}
N = sp.Symbol("N", positive=True)


def find(F, cls, short):
    return next((g for g in F.functions if g["kind"] == "inst" and g.get("cls") == cls and g["short"] == short and "Map" not in str(g.get("clsargs")) and "double" in str(g.get("clsargs")) and g.get("body")), None)


def scale_factor(F, f):
    """Return (kind, s(N)) describing how compose() renormalises:  ('conditional', expr) / ('always', 'normalize') / (None, why)."""
    body = f.get("body") or {}
    stmts = body.get("ch") or []
    # unconditional normalisation anywhere before the return
    for s in stmts:
        if s.get("k") == "IfStmt":
            continue
        for x in A.walk(s):
            if A.is_call(x) and A.short(x.get("fn")) in ("normalize", "normalized") and str(x.get("cls", "")).startswith("Eigen::"):
                return "always", "normalize"
    ifs = [s for s in stmts if s.get("k") == "IfStmt" and "::eps" in sexp(s.get("cond")) and ("abs" in sexp(s.get("cond")))]
    if not ifs:
        return None, "no renormalisation step found on the path to `return LieGroup(...)`"
    s = ifs[-1]
    cond = sexp(s.get("cond"))
    # accepted spellings:  abs(N - 1) > eps,  abs(1 - N) >= eps,  eps < abs(N - 1)  (N a local variable)
    c = A.strip(s.get("cond"))
    sq_name = None
    if isinstance(c, dict) and c.get("k") == "BinaryOperator" and c.get("op") in (">", ">=", "<", "<="):
        l, r = A.strip(c["ch"][0]), A.strip(c["ch"][1])
        big, small = (l, r) if c["op"] in (">", ">=") else (r, l)
        if "::eps" in sexp(small) and "abs" in sexp(big):
            for x in A.walk(big):
                if x.get("k") == "BinaryOperator" and x.get("op") == "-":
                    a, b = A.strip(x["ch"][0]), A.strip(x["ch"][1])
                    for u, w in ((a, b), (b, a)):
                        if isinstance(u, dict) and u.get("k") == "DeclRefExpr" and sexp(w).replace("CXXFunctionalCastExpr ", "").strip("()") in ("1", "1.", "1.0"):
                            sq_name = u.get("name")
    if sq_name is None:
        return None, "renormalisation is guarded by `%s`, expected `abs(<squared norm> - 1) > Constants::eps`" % cond[:120]
    # the squared-norm variable must be the squared norm of the coefficients that get scaled
    sq_decl = None
    for st in stmts:
        if st.get("k") == "DeclStmt":
            for d in st.get("decls") or []:
                if d.get("k") == "VarDecl" and d.get("name") == sq_name:
                    sq_decl = d
    if sq_decl is None:
        return None, "squared-norm variable %s not found" % sq_name
    sq_term = sexp(sq_decl.get("init"))
    # evaluate the scale applied inside the branch as a function of N
    def resolver(n, ev, env):
        if n.get("k") == "DeclRefExpr" and n.get("name") == sq_name:
            return N
        if A.is_call(n) and n.get("inrepo") and A.short(n.get("fn")) == "approxSqrtInv":
            callee = F.by_id.get(n.get("fid"))
            arg = ev.ev(A.call_parts(n)[2][0], env)
            ret = next(x for x in A.walk(callee) if x.get("k") == "ReturnStmt")
            return ev.ev(ret["e"], {callee["params"][0]["decl"]: arg})
        if A.is_call(n) and A.short(n.get("fn")) == "sqrt":
            return None
        return None
    ev = SE.ScalarEval(F, resolver)
    env = {}
    scaled = []
    factors = []
    for st in (s.get("then") or {}).get("ch") or [s.get("then")]:
        if not isinstance(st, dict):
            continue
        if st.get("k") == "DeclStmt":
            ev.step(st, env)
            continue
        x = A.strip(st)
        # X *= e   (scalars)  or  X.coeffs() *= e  (Eigen)
        if x.get("k") == "CompoundAssignOperator" and x.get("op") == "*=":
            scaled.append(sexp(x["ch"][0]))
            factors.append(ev.ev(x["ch"][1], env))
        elif x.get("k") == "CXXOperatorCallExpr" and x.get("op") == "*=":
            fn, obj, args = A.call_parts(x)
            scaled.append(sexp(obj))
            factors.append(ev.ev(args[0], env))
        elif x.get("k") == "CXXOperatorCallExpr" and x.get("op") == "/=":
            fn, obj, args = A.call_parts(x)
            scaled.append(sexp(obj))
            factors.append(1 / ev.ev(args[0], env))
        elif x.get("k") == "NullStmt":
            continue
        else:
            return None, "unrecognised statement in the renormalisation branch: %s" % sexp(x)[:100]
    if not factors:
        return None, "renormalisation branch scales nothing"
    if any(sp.simplify(fc - factors[0]) != 0 for fc in factors):
        return None, "rotation coefficients are scaled by different factors: %s" % factors
    # every variable entering the squared norm must be scaled
    missing = [v for v in set(re.findall(r"ret_\w+", sq_term)) if v != sq_name and not any(v in sc for sc in scaled)]
    if missing:
        return None, "coefficient(s) %s enter the squared norm but are not rescaled" % missing
    return "conditional", sp.simplify(factors[0])


def run(args):
    rep = C.Report("C08", "other", "must-pass-through renormalisation with series-checked contraction, delegation, norm-preserving producers")
    n = 0
    for v, cls in COMPOSE.items():
        F = FX.get(v)
        f = find(F, cls, "compose")
        if f is None:
            rep.broke("anchor vanished: %s::compose" % cls)
            continue
        n += 1
        kind, s = scale_factor(F, f)
        site = "%s::compose" % cls
        rep.obligation(kind is not None, lambda f=f, s=s: C.Finding("C08", "R-MPT.renormalise", site, str(s), f["file"], f["line"]))
        if kind == "conditional":
            # new squared norm N' = N * s(N)^2 ; contraction towards 1:  N' - 1 = O((N-1)^2)
            d = sp.Symbol("d")
            ser = sp.series((N * s ** 2).subs(N, 1 + d) - 1, d, 0, 4).removeO()
            c0 = ser.coeff(d, 0)
            c1 = ser.coeff(d, 1)
            order = next((k for k in range(0, 4) if ser.coeff(d, k) != 0), 4)
            rep.obligation(c0 == 0 and c1 == 0, lambda f=f, s=s, ser=ser: C.Finding(
                "C08", "R-JET.contraction", site,
                "the renormalisation scale s(N) = %s maps a squared norm 1+d to 1 + (%s): it does not contract the deviation (need N*s(N)^2 - 1 = O(d^2))" % (s, ser),
                f["file"], f["line"]))
            rep.sample({"compose": site, "scale": str(s), "new_sqnorm_minus_1": str(ser), "contraction_order": order})
        elif kind == "always":
            rep.sample({"compose": site, "scale": "unconditional normalize()"})
    nd = delegation(rep, "C08", DELEGATION, "compose")
    # producers that preserve the norm by construction
    npd = 0
    for v, cls, short, need in (("SO3", "manif::SO3Base", "inverse", "conjugate"), ("SO3", "manif::internal::CastEvaluatorImpl", "run", "normalized"),
                                ("SE3", "manif::internal::CastEvaluatorImpl", "run", "normalized"), ("SE_2_3", "manif::internal::CastEvaluatorImpl", "run", "normalized"),
                                ("SGal3", "manif::internal::CastEvaluatorImpl", "run", "normalized"),
                                ("SO2", "manif::internal::CastEvaluatorImpl", "run", "(angle "), ("SE2", "manif::internal::CastEvaluatorImpl", "run", "(angle ")):
        F = FX.get(v)
        fs = [g for g in F.functions if g["kind"] == "inst" and g.get("cls") == cls and g["short"] == short and g.get("body") and "Tangent" not in str(g.get("clsargs"))
              and (cls != "manif::internal::CastEvaluatorImpl" or ("%sBase<" % v) in str(g.get("clsargs")))]
        if not fs:
            rep.broke("anchor vanished: %s::%s (%s)" % (cls, short, v))
            continue
        for f in fs[:1]:
            npd += 1
            t = sexp(f.get("body"))
            rep.obligation(need in t, lambda f=f, t=t, need=need: C.Finding("C08", "R-FWD.producer", f["name"], "rotation producer no longer goes through `%s`: %s" % (need, t[:140]), f["file"], f["line"]))
    for v, cls in (("SO2", "manif::SO2Base"), ("SE2", "manif::SE2Base")):
        F = FX.get(v)
        f = find(F, cls, "inverse")
        if f is None:
            rep.broke("anchor vanished: %s::inverse" % cls)
            continue
        npd += 1
        t = sexp(f.get("body"))
        ok = "(real this)" in t and "(- (imag this))" in t or "(op- (imag this))" in t or "(angle this)" in t
        rep.obligation(ok, lambda f=f, t=t: C.Finding("C08", "R-FWD.producer", f["name"], "planar inverse is not the conjugate (real, -imag): %s" % t[:160], f["file"], f["line"]))
    # small-angle arm of SO3 exp: |q| - 1 = th^2/8 + ... must stay below the acceptance threshold eps at th^2 <= eps
    from . import rules_jet as RJ
    from . import jeteval as J
    F = FX.get("SO3")
    f = find(F, "manif::SO3TangentBase", "exp")
    if f is None:
        rep.broke("anchor vanished: SO3TangentBase::exp")
    else:
        try:
            js, rs = RJ.run_world(F, f, True, {}, 1)
            q = RJ.quaternion_of(rs)
            nx, ny, nz = sp.symbols("n_x n_y n_z", real=True)
            sq = sp.expand(sum(c ** 2 for c in q)).subs(nx ** 2, 1 - ny ** 2 - nz ** 2)
            dev = sp.series(sp.sqrt(sp.simplify(sq)) - 1, J.TH, 0, 6).removeO()
            lead = sp.expand(dev).as_leading_term(J.TH)
            c, p = lead.as_coeff_exponent(J.TH)
            # the arm is used up to the switch-over magnitude th_s read from the code's own switch; there the deviation
            # c * th_s^p must stay below the constructor's acceptance threshold eps (double and float)
            worst = []
            for sc in ("double", "float"):
                epsv = RJ.EPS_VAL[sc]
                ths = []
                for ln, q, _small, thr in js.switches:
                    lead_q = sp.series(q, J.TH, 0, 8).removeO()
                    cq, pq = sp.expand(lead_q).as_leading_term(J.TH).as_coeff_exponent(J.TH)
                    ths.append((float(thr.subs(J.EPS, epsv)) / abs(float(cq))) ** (1.0 / float(pq)))
                if not ths:
                    raise ValueError("no precision switch found in SO3TangentBase::exp")
                th_s = max(ths)
                worst.append((sc, th_s, abs(float(c)) * th_s ** float(p), epsv))
            ok = all(d_ <= e_ for _sc, _t, d_, e_ in worst)
            npd += 1
            rep.obligation(bool(ok), lambda: C.Finding("C08", "R-JET.unit", "SO3TangentBase::exp small-angle arm",
                           "the small-angle quaternion has |q| - 1 = %s; at the switch-over this is %s, above the constructor's acceptance threshold Constants::eps: exp returns an element the library itself rejects" % (
                               dev, ", ".join("%.1e (%s, |theta| = %.2g, eps = %.1e)" % (d_, sc_, t_, e_) for sc_, t_, d_, e_ in worst)), f["file"], f["line"]))
            rep.sample({"SO3 exp small-angle |q|-1": str(dev)})
        except Exception as e:   # noqa
            rep.broke("R-JET cannot evaluate SO3TangentBase::exp small-angle arm: %s" % e)
    rep.floor("compose_functions", n, 3)
    rep.floor("delegations", nd, 3)
    rep.floor("producers", npd, 9)
    rep.rules = [
        "C08.a R-MPT.renormalise: SO2/SE2/SO3 compose pass, before constructing the result, either an unconditional normalize()/normalized() or a step guarded by `abs(sqnorm - 1) > Constants::eps` that multiplies every coefficient entering sqnorm by the same factor s(sqnorm)",
        "C08.a R-JET.contraction (exact series): N*s(N)^2 - 1 = O((N-1)^2): one renormalisation contracts the deviation (the shipped polynomial 15/8 - 5N/4 + 3N^2/8 gives order 3)",
        "C08.b R-FWD.delegation: SE3 / SE_2_3 / SGal3 compose obtain the rotation part from SO3::compose",
        "C08.c producers: SO3 inverse = conjugate, planar inverse = (real, -imag), cast<>() ends in normalized() (3-D) / rebuilds the element from its angle (planar: cos/sin of one angle have unit norm in the new scalar type), the small-angle arm of SO3 exp stays within the acceptance threshold (|q|-1 = th^2/8 <= eps/8)",
    ]
    rep.units = ["SO2/SE2/SO3/SE3/SE_2_3/SGal3 double drivers"]
    rep.trusted = ["sympy", "clang AST", "Eigen normalize()/conjugate()/AngleAxis->Quaternion produce unit quaternions"]
    rep.assumptions = ["NOT decided: a history-independent bound on norm drift under rounding; absence of exceptions in assertion builds for every sequence"]
    rep.checker_cmd = "manif-sa plugin + engine/check_c08.py"
    return rep.finish()
