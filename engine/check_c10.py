"""C10 - views over external memory behave exactly like owning objects (DESIGN.md 3/C10).

Structural clauses: (a) Map classes add nothing but storage + assignment to the shared CRTP bases, and
the bases reach storage only through coeffs(); (b) traits of the views agree with the owning class and
the storage is a fixed-size Eigen::Map; (c) every constant sub-view / raw view lies inside the buffer;
(d) the whole assignment / copy family only copies coefficients; (e) mutation through const views or
const objects does not compile; (f) every operation instantiates on views (C19's Map columns).
"""
import os
import re

from . import astq as A
from . import common as C
from . import facts as FX
from . import outputs as O
from . import witness as W
from .api_table import ENTRIES
from .sexp import sexp

GROUPS = ["SO2", "SE2", "SO3", "SE3", "SE_2_3", "SGal3", "Rn", "Bundle"]
ALLOWED_MAP_METHODS = {"Map", "operator=", "coeffs", "~Map"}


def surface(rep, fl):
    """(a)"""
    inc = C.REPO.rstrip("/") + "/include/"
    seen_maps = set()
    owning_bases = {}
    for F in fl:
        for c in F.classes:
            if not c["file"].startswith(inc) or c["kind"] != "pattern":
                continue
            if c["name"].startswith("manif::") and c["bases"]:
                owning_bases.setdefault(c["name"], c["bases"][0].split("<")[0])
    for F in fl:
        for c in F.classes:
            if c["name"] != "Eigen::Map" or c["kind"] != "pattern" or not c["file"].startswith(inc):
                continue
            key = (c["file"], c["line"])
            if key in seen_maps:
                continue
            seen_maps.add(key)
            what = c.get("partial_args", "")
            for m in c["methods"]:
                rep.obligation(m["ctor"] or m["dtor"] or m["name"] in ALLOWED_MAP_METHODS, lambda c=c, m=m, what=what: C.Finding(
                    "C10", "R-SURFACE", "Eigen::Map<%s>::%s" % (what, m["name"]),
                    "view class declares operation '%s': it could diverge from the owning class, which inherits it from the shared base" % m["name"],
                    c["file"], m["ln"]))
            for f in c["fields"]:
                rep.obligation(f["name"] == "data_", lambda c=c, f=f, what=what: C.Finding(
                    "C10", "R-SURFACE", "Eigen::Map<%s>::%s" % (what, f["name"]), "view class has extra state '%s'" % f["name"], c["file"], f["ln"]))
            # same CRTP base template as the owning class
            m = re.match(r"<\s*(?:const\s+)?(?:manif::)?(\w+)<", what)
            own = ("manif::" + m.group(1)) if m else None
            base_t = c["bases"][0].split("<")[0] if c["bases"] else None
            rep.obligation(own in owning_bases and owning_bases[own].split("::")[-1] == (base_t or "").split("::")[-1], lambda c=c, own=own, base_t=base_t: C.Finding(
                "C10", "R-SURFACE", "Eigen::Map<%s>" % own, "view derives from %s but the owning class derives from %s" % (base_t, owning_bases.get(own)), c["file"], c["line"]))
    rep.floor("map_class_patterns", len(seen_maps), 32)
    # who-may-access data_: only the class that declares it
    n_acc = 0
    seen = set()
    for F in fl:
        for f in F.functions:
            if not f["file"].startswith(inc):
                continue
            for n in A.walk(f):
                if n.get("k") in ("MemberExpr", "CXXDependentScopeMemberExpr", "UnresolvedMemberExpr") and n.get("name") == "data_":
                    key = (f["file"], n.get("ln"))
                    if key in seen:
                        continue
                    seen.add(key)
                    n_acc += 1
                    cls = f.get("cls") or ""
                    ok = cls == "Eigen::Map" or (cls.startswith("manif::") and not cls.endswith("Base"))
                    rep.obligation(ok, lambda f=f, n=n: C.Finding(
                        "C10", "R-STORAGE", f["name"], "shared base code names the storage member data_ directly instead of coeffs(): owning and view storage could be treated differently",
                        f["file"], n.get("ln")))
    rep.floor("data_member_accesses", n_acc, 60)
    return len(seen_maps), n_acc


def traits_witnesses(rep, work):
    """(b)"""
    lines = ["#include <manif/manif.h>", "#include <type_traits>", "namespace vt_c10 {"]
    obl = []
    variants = ["SO2", "SE2", "SO3", "SE3", "SE_2_3", "SGal3", "R1", "R3", "R9", "B1", "B2", "B3"]
    for v in variants:
        for S in ("double", "float"):
            G = W.group_cpp(v, S)
            ns = "t_%s_%s" % (v, S)
            lines.append("namespace %s { using S = %s; using G = %s; using T = G::Tangent;" % (ns, S, G))
            for X, size in (("G", "G::RepSize"), ("T", "T::RepSize")):
                for cq, M in (("", "Eigen::Map<%s>" % X), ("const ", "Eigen::Map<const %s>" % X)):
                    checks = [
                        ("std::is_same<%s::Scalar, S>::value" % M, "Scalar"),
                        ("%s::DoF == %s::DoF && %s::Dim == %s::Dim && %s::RepSize == %s::RepSize" % (M, X, M, X, M, X), "Dim/DoF/RepSize"),
                        ("std::is_same<%s::LieGroup, G>::value && std::is_same<%s::Tangent, T>::value" % (M, M), "LieGroup/Tangent"),
                        ("std::is_same<%s::Jacobian, %s::Jacobian>::value" % (M, X), "Jacobian"),
                        ("std::is_same<%s::DataType, Eigen::Map<%sEigen::Matrix<S, %s, 1>, 0>>::value" % (M, cq, size), "DataType is a fixed-size Eigen::Map"),
                        ("std::is_base_of<manif::internal::traits<%s>::Base, %s>::value" % (M, M), "traits::Base is the view's own base"),
                        ("std::is_same<%s::DataType, Eigen::Matrix<S, %s, 1>>::value" % (X, size), "owning DataType"),
                    ]
                    for cond, what in checks:
                        tag = "C10.b %s of %s (%s %s)" % (what, M.replace("G", v).replace('"', ""), v, S)
                        lines.append('static_assert(%s, "%s");' % (cond, tag))
                        obl.append(tag)
            lines.append("}")
    lines.append("}")
    p = os.path.join(work, "c10_traits.cc")
    with open(p, "w") as fh:
        fh.write("\n".join(lines) + "\n")
    rc, err, cmd = W.compile_syntax_only(p, C.base_flags())
    bad = [l for l in err.splitlines() if "static_assert failed" in l or "static assertion failed" in l]
    other = [l for l in err.splitlines() if ": error:" in l and l not in bad]
    if rc != 0 and other:
        rep.broke("traits witness TU failed to compile: %s" % other[:2])
        return 0
    for l in bad:
        m = re.search(r'"(C10\.b [^"]*)"', l)
        rep.fail(C.Finding("C10", "E1-static_assert", m.group(1) if m else l[:160], "traits of the view disagree with the owning class: " + (m.group(1) if m else l[:200]), None, None))
    rep.ok(len(obl) - len(bad))
    rep.section("traits_witnesses", static_asserts=len(obl), failed=len(bad))
    rep.sample({"static_assert": obl[4]})
    return len(obl)


ASSIGN_OK = re.compile(
    r"^\{ (?:\(run \(AssignmentEvaluator\) [^;]*\) ; )?\(op= \((?:coeffs \((?:derived )?this\)|coeffs this|\.data_ this)\) "
    r"(?:\(coeffs [\w]+\)|[\w]+|\(move \(coeffs [\w]+\)\)|\(move [\w]+\)|\(Matrix \(move [\w]+\)\)|\(Matrix [\w]+\))\) ; "
    r"\(return \((?:derived this|\* this)\)\) \}$")


ASSIGN_PATTERN_OK = re.compile(
    r"^\{ (?:\(run \w+\) ; )?\(= \(coeffs\) (?:\(coeffs\)|\w+|\(move \(coeffs\)\)|\(move \w+\))\) ; \(return \((?:derived|op\* this|\* this)\)\) \}$")


def assignment_family(rep, fl):
    """(d)"""
    inc = C.REPO.rstrip("/") + "/include/"
    n = 0
    seen_pat = set()
    for F in fl:
        # template patterns: overloads that no driver happens to select are still part of the family
        for f in F.functions:
            if f["kind"] != "pattern" or f["short"] != "operator=" or not f["file"].startswith(inc) or f.get("body") is None:
                continue
            cls = f.get("cls") or ""
            if not (cls.startswith("manif::") or cls == "Eigen::Map") or "internal" in cls:
                continue
            term = sexp(f["body"])
            key = (f["file"], f["line"], term)
            if key in seen_pat:
                continue
            seen_pat.add(key)
            n += 1
            rep.obligation(bool(ASSIGN_PATTERN_OK.match(term)), lambda f=f, term=term: C.Finding(
                "C10", "R-ASSIGN", "%s@%s:%d" % (f["name"], os.path.basename(f["file"]), f["line"]),
                "assignment operator (template pattern) is not 'copy the coefficients, return *this': %s" % term[:220], f["file"], f["line"]))
    for F in fl:
        for f in F.functions:
            if f["kind"] == "pattern" or not f["file"].startswith(inc) or f.get("body") is None:
                continue
            cls = f.get("cls") or ""
            if not (cls.startswith("manif::") or cls == "Eigen::Map"):
                continue
            if "Evaluator" in cls or cls.startswith("manif::internal"):
                continue
            if f["short"] == "operator=":
                n += 1
                term = sexp(f["body"])
                term = re.sub(r"\(CXXStaticCastExpr ([^()]*|\([^()]*\))\)", r"\1", term)
                ok = bool(ASSIGN_OK.match(term))
                rep.obligation(ok, lambda f=f, term=term: C.Finding(
                    "C10", "R-ASSIGN", f["name"], "assignment operator is not 'copy the coefficients, return *this': %s" % term[:220], f["file"], f["line"]))
            elif f.get("ctor") and (f.get("copyctor") or f.get("movector")) and not f.get("defaulted"):
                n += 1
                inits = [i for i in f.get("inits") or [] if i.get("member") == "data_"]
                term = sexp(inits[0]["init"]) if inits else "<no data_ init>"
                ok = bool(re.search(r"^\(?(Matrix |Map )?\(?(move )?\(?(coeffs )?\w+\)*$", term)) or "(coeffs o)" in term
                body_ok = not (f.get("body") or {}).get("ch")
                rep.obligation(ok and body_ok, lambda f=f, term=term: C.Finding(
                    "C10", "R-ASSIGN", f["name"], "copy/move constructor does not initialise the storage from the argument's coefficients only: data_(%s)" % term[:160], f["file"], f["line"]))
    rep.floor("assignment_family_members", n, 500)
    return n


def must_not_compile(rep, work, variants):
    """(e)"""
    ments = [e for e in ENTRIES if "m" in e["flags"]]
    n = 0
    jobs = []
    for v in variants:
        for kind in ("cmap", "cown"):
            es = [e for e in ments if (e["groups"] is None or W.family_of(v) in e["groups"])]
            jobs.append((v, kind, es))

    def one(job):
        v, kind, es = job
        out = []
        G = W.group_cpp(v, "double")
        for chunk_start in range(0, len(es), 1):
            pass
        # one TU per witness would be slow: use the peeling runner in reverse - every witness must be rejected
        src, index = mnc_source(v, kind, es)
        p = os.path.join(work, "mnc_%s_%s.cc" % (v, kind))
        remaining = list(es)
        rejected = {}
        rnd = 0
        while remaining and rnd < 8:
            src, index = mnc_source(v, kind, remaining)
            with open(p, "w") as fh:
                fh.write(src)
            rc, err, cmd = W.compile_syntax_only(p, C.base_flags())
            if rc == 0:
                break
            bad, unattr = W.attribute_errors(err, p, index)
            if not bad:
                break
            rejected.update(bad)
            remaining = [e for e in remaining if e["id"] not in bad]
            rnd += 1
        return v, kind, es, rejected, remaining

    for v, kind, es, rejected, accepted in C.pmap(one, jobs):
        for e in es:
            n += 1
            ok = e["id"] in rejected
            rep.obligation(ok, lambda v=v, kind=kind, e=e: C.Finding(
                "C10", "E1-must-not-compile", "%s/%s/%s" % (e["id"], v, kind),
                "mutating entry compiles on a %s operand: a read-only view / const object can be modified: %s" % (
                    "Map<const G>" if kind == "cmap" else "const G&", e["body"]), None, None))
        if es:
            rep.sample({"witness": "%s on %s %s" % (es[0]["id"], v, kind), "program": es[0]["body"], "verdict": "rejected by the compiler"})
    rep.floor("must_not_compile_witnesses", n, 400)
    return n


def mnc_source(v, kind, es):
    G = W.group_cpp(v, "double")
    text = W.PRELUDE % {"extra_includes": ""}
    text += "namespace mnc_%s_%s {\nusing vt::use; using S = double; using G = %s; using T = typename G::Tangent;\n" % (v, kind, G)
    if kind == "cmap":
        text += "using GK = Eigen::Map<const G>; using TK = Eigen::Map<const T>;\n"
        xm, tm = "GK& Xm", "TK& tm"
    else:
        text += "using GK = G; using TK = T;\n"
        xm, tm = "const GK& Xm", "const TK& tm"
    sig = ", ".join(["const GK& X", "const GK& Y", "const TK& t", "const TK& s", "const G& Xo", "const T& to",
                     "typename G::Jacobian& J", "const S sc", "const int i", "const typename T::LieAlg& alg",
                     "const typename G::DataType& xc", "const typename T::DataType& tc", xm, tm])
    index = {}
    n = text.count("\n") + 1
    for k, e in enumerate(es):
        fn = "void w%d_%s(%s)\n{ %s }\n" % (k, re.sub(r"\W", "_", e["id"]), sig, e["body"])
        index[n] = e["id"]
        text += fn
        n += fn.count("\n")
    text += "}\n"
    return text, index


def run(args):
    rep = C.Report("C10", "proof", "structural rules on the view classes + static_assert / must-not-compile witnesses + block/raw-view bounds")
    work = C.scratch("c10")
    specs = O.default_specs(("own", "map", "cmap"))
    n_traits = traits_witnesses(rep, work)       # compiler-decided witnesses first: they still report when a driver TU no longer compiles
    try:
        fl = FX.get_many(specs)
    except C.AnalysisBroken as e:
        rep.broke(str(e)[:600])
        rep.rules = ["(facts extraction failed; only the static_assert witnesses were evaluated)"]
        return rep.finish()
    n_maps, n_acc = surface(rep, fl)
    n_assign = assignment_family(rep, fl)
    variants = ["SO2", "SE2", "SO3", "SE3", "SE_2_3", "SGal3", "R3", "B1"]
    n_mnc = must_not_compile(rep, work, variants)
    # (c) blocks and raw views over all storage kinds
    rr = O.run(specs)
    nb = nv = 0
    for b in rr.blocks:
        nb += 1
        if b["ok"] is False:
            rep.fail(C.Finding("C10", "R-BLOCK", "%s@%s" % (b["fn"], b["text"]), "constant sub-view outside the object: " + b["text"], b["file"], b["line"]))
        else:
            rep.ok()
    for vw in rr.views:
        nv += 1
        ok = vw["k"] is not None and vw["host"] is not None and vw["view"] is not None and 0 <= vw["k"] and vw["k"] + vw["view"] <= vw["host"]
        rep.obligation(ok, lambda vw=vw: C.Finding(
            "C10", "R-PTR", "%s@+%s" % (vw["fn"], vw["k"]),
            "internal raw view of %s scalars at offset %s does not fit the %s-scalar buffer it is taken from" % (vw["view"], vw["k"], vw["host"]), vw["file"], vw["line"]))
        rep.obligation(not (vw["host_const"] or vw["const_method"]) or bool(vw["view_const"]), lambda vw=vw: C.Finding(
            "C10", "R-PTR.const", vw["fn"], "a mutable view is produced from a const access path", vw["file"], vw["line"]))
    rep.floor("block_accesses", nb, 3000)
    rep.floor("raw_views", nv, 60)
    rep.section("counts", map_classes=n_maps, data_member_accesses=n_acc, traits_static_asserts=n_traits,
                assignment_family_members=n_assign, must_not_compile=n_mnc, block_accesses=nb, raw_views=nv)
    rep.rules = [
        "C10.a R-SURFACE: each Eigen::Map<[const] G> specialisation derives from the same GBase<> as the owning class and declares only constructors, coeffs() and operator=; R-STORAGE: base-class code never names data_ (storage is reached only through coeffs()) => owning objects and views execute the same function bodies",
        "C10.b traits of the views equal the owning class's; DataType is a fixed-size Eigen::Map<[const] Matrix<S,RepSize,1>> (writes through coeffs() are confined to RepSize scalars by Eigen's static typing); traits::Base is the view's own base",
        "C10.c R-BLOCK on every constant sub-view, R-PTR on every internal raw view (asSO3, element<i>, SGal3::log), const-correctness of produced views",
        "C10.d R-ASSIGN: every operator= / copy / move constructor of groups, tangents and views only copies coefficients and returns *this",
        "C10.e every mutating API entry is rejected by the compiler on Map<const G> and on const G&",
        "C10.f every operation instantiates on views: C19's Map / Map<const> columns",
    ]
    rep.units = [F.tag for F in fl]
    rep.trusted = ["clang 14 front end", "Eigen::Map semantics", "C19 for (f)"]
    rep.assumptions = ["NOT decided: last-ulp differences from alignment-dependent vectorisation between owning and unaligned view operands"]
    rep.checker_cmd = "clang++ -fsyntax-only witness TUs; manif-sa plugin + engine/rules_out.py"
    return rep.finish()
