"""R-TABLE engine: abstract interpretation of straight-line matrix-building code over the
domain  cell -> affine form over Q in named symbols | TOP  (DESIGN.md section 2).

It interprets the *instantiated* AST exported by the plugin: callees are resolved, block
offsets are folded constants, manif callees are inlined (bounded depth), the Eigen idioms
used by this code base are given exact transfer functions, anything else yields TOP.  It
never looks at floating-point values: literals are read as exact rationals.
"""
from fractions import Fraction
import re

from . import astq as A
from .rules_out import subregion, const_of


class Top:
    def __repr__(self):
        return "T"


TOP = Top()


class Aff:
    __slots__ = ("t", "c")

    def __init__(self, c=0, t=None):
        self.c = Fraction(c)
        self.t = dict(t) if t else {}

    @staticmethod
    def sym(name):
        return Aff(0, {name: Fraction(1)})

    def is_const(self):
        return not self.t

    def __add__(self, o):
        t = dict(self.t)
        for k, v in o.t.items():
            t[k] = t.get(k, 0) + v
            if t[k] == 0:
                del t[k]
        return Aff(self.c + o.c, t)

    def __neg__(self):
        return Aff(-self.c, {k: -v for k, v in self.t.items()})

    def __sub__(self, o):
        return self + (-o)

    def scale(self, f):
        f = Fraction(f)
        if f == 0:
            return Aff(0)
        return Aff(self.c * f, {k: v * f for k, v in self.t.items()})

    def __eq__(self, o):
        return isinstance(o, Aff) and self.c == o.c and self.t == o.t

    def __hash__(self):
        return hash((self.c, tuple(sorted(self.t.items()))))

    def __repr__(self):
        parts = []
        for k in sorted(self.t):
            v = self.t[k]
            parts.append(("%s" % k) if v == 1 else ("-%s" % k if v == -1 else "%s*%s" % (v, k)))
        if self.c != 0 or not parts:
            parts.append(str(self.c))
        return "+".join(parts).replace("+-", "-")

    def subst(self, m):
        """Substitute symbols by affine forms (missing symbols stay)."""
        r = Aff(self.c)
        for k, v in self.t.items():
            r = r + (m[k].scale(v) if k in m else Aff(0, {k: v}))
        return r


POLY = False      # polynomial mode (R-POLY, C01): products of non-constant forms become sympy polynomials


class Poly:
    """A polynomial over Q in the coefficient symbols (sympy expression, kept expanded); in expression mode
    (POLY == "expr") any closed-form scalar expression."""
    __slots__ = ("e",)

    def __init__(self, e):
        import sympy as sp
        self.e = sp.expand(e) if POLY != "expr" else e

    def __repr__(self):
        return "P(%s)" % self.e

    def __eq__(self, o):
        return isinstance(o, Poly) and self.e == o.e

    def __hash__(self):
        return hash(self.e)

    def is_const(self):
        return self.e.is_number


def to_sym(x):
    import sympy as sp
    if isinstance(x, Poly):
        return x.e
    if isinstance(x, Aff):
        e = sp.Rational(x.c.numerator, x.c.denominator)
        for k, v in x.t.items():
            e += sp.Rational(v.numerator, v.denominator) * sp.Symbol(k)
        return e
    raise TypeError(x)


def from_sym(e):
    """Back to Aff when the expression is affine with rational coefficients (keeps table code working)."""
    import sympy as sp
    e = sp.expand(e)
    try:
        p = sp.Poly(e, *sorted(e.free_symbols, key=str)) if e.free_symbols else None
    except sp.PolynomialError:
        return Poly(e) if POLY == "expr" else TOP     # expression mode (R-SERIES): keep transcendental closed forms
    if p is None:
        return Aff(Fraction(int(sp.numer(e)), int(sp.denom(e)))) if e.is_Rational else Poly(e)
    if p.total_degree() <= 1 and all(c.is_Rational for c in p.coeffs()):
        a = Aff(0)
        for mon, c in p.terms():
            f = Fraction(int(sp.numer(c)), int(sp.denom(c)))
            if sum(mon) == 0:
                a = a + Aff(f)
            else:
                a = a + Aff(0, {str(p.gens[mon.index(1)]): f})
        return a
    return Poly(e)


JET = None         # jet mode (R-SERIES): the module engine.jetnum; scalars are truncated power series


def amul(a, b):
    if JET is not None and (isinstance(a, JET.JetNum) or isinstance(b, JET.JetNum)):
        return JET.mul(a, b) if isinstance(a, (Aff, Poly)) and isinstance(b, (Aff, Poly)) else TOP
    if POLY and isinstance(a, (Aff, Poly)) and isinstance(b, (Aff, Poly)) and not (isinstance(a, Aff) and a.is_const()) and not (isinstance(b, Aff) and b.is_const()):
        return from_sym(to_sym(a) * to_sym(b))
    if isinstance(a, Poly) or isinstance(b, Poly):
        if isinstance(a, (Aff, Poly)) and isinstance(b, (Aff, Poly)):
            return from_sym(to_sym(a) * to_sym(b))
        return TOP
    return _amul(a, b)


def aneg(x):
    if JET is not None and isinstance(x, JET.JetNum):
        return JET.neg(x)
    return from_sym(-x.e)


def adiv(a, b):
    if JET is not None and (isinstance(a, JET.JetNum) or isinstance(b, JET.JetNum)):
        return JET.div(a, b)
    return from_sym(to_sym(a) / to_sym(b))


def _amul(a, b):
    if a is TOP or b is TOP or a is None or b is None:
        if isinstance(a, Aff) and a.is_const() and a.c == 0:
            return Aff(0)
        if isinstance(b, Aff) and b.is_const() and b.c == 0:
            return Aff(0)
        return TOP
    if a.is_const():
        return b.scale(a.c)
    if b.is_const():
        return a.scale(b.c)
    return TOP


def aadd(a, b, sign=1):
    if JET is not None and (isinstance(a, JET.JetNum) or isinstance(b, JET.JetNum)):
        return JET.add(a, b, sign) if isinstance(a, (Aff, Poly)) and isinstance(b, (Aff, Poly)) else TOP
    if isinstance(a, Poly) or isinstance(b, Poly):
        if isinstance(a, (Aff, Poly)) and isinstance(b, (Aff, Poly)):
            return from_sym(to_sym(a) + sign * to_sym(b))
        return TOP
    return _aadd(a, b, sign)


def _aadd(a, b, sign=1):
    if a is TOP or b is TOP or a is None or b is None:
        return TOP
    return a + (b if sign > 0 else -b)


class Mat:
    def __init__(self, R, Cc, fill=None):
        self.R, self.C = R, Cc
        self.cells = [fill] * (R * Cc)

    def get(self, r, c):
        return self.cells[r * self.C + c]

    def set(self, r, c, v):
        self.cells[r * self.C + c] = v

    def copy(self):
        m = Mat(self.R, self.C)
        m.cells = list(self.cells)
        return m

    @staticmethod
    def const(R, Cc, v):
        return Mat(R, Cc, Aff(v))

    @staticmethod
    def identity(R, Cc):
        m = Mat(R, Cc, Aff(0))
        for i in range(min(R, Cc)):
            m.set(i, i, Aff(1))
        return m

    @staticmethod
    def top(R, Cc):
        return Mat(R, Cc, TOP)

    def __repr__(self):
        return "[" + "; ".join(", ".join(repr(self.get(r, c)) for c in range(self.C)) for r in range(self.R)) + "]"

    def rows_list(self):
        return [[self.get(r, c) for c in range(self.C)] for r in range(self.R)]

    def has_top(self):
        return any(x is TOP or x is None for x in self.cells)


class View:
    """Writable window into a Mat."""

    def __init__(self, m, r0, c0, nr, nc):
        self.m, self.r0, self.c0, self.nr, self.nc = m, r0, c0, nr, nc
        self.R, self.C = nr, nc

    def inside(self):
        return self.r0 >= 0 and self.c0 >= 0 and self.r0 + self.nr <= self.m.R and self.c0 + self.nc <= self.m.C

    def mat(self):
        out = Mat(self.nr, self.nc)
        if not self.inside():
            out.cells = [TOP] * (self.nr * self.nc)
            return out
        for r in range(self.nr):
            for c in range(self.nc):
                out.set(r, c, self.m.get(self.r0 + r, self.c0 + c))
        return out

    def assign(self, val):
        if not self.inside():
            return
        for r in range(self.nr):
            for c in range(self.nc):
                self.m.set(self.r0 + r, self.c0 + c, val.get(r, c) if isinstance(val, Mat) else val)

    def sub(self, r0, c0, nr, nc):
        return View(self.m, self.r0 + r0, self.c0 + c0, nr, nc)


class Obj:
    """A manif object: only its coefficient storage matters."""

    def __init__(self, coeffs, cls=None):
        self.coeffs = coeffs   # View
        self.cls = cls
        self.fields = {}


class Ptr:
    def __init__(self, view, off=0):
        self.view, self.off = view, off


class Comma:
    def __init__(self, view):
        self.view, self.row, self.col, self.h = view, 0, 0, 0
        self.count = 0
        self.overflow = False

    def add(self, item):
        if isinstance(item, View):
            item = item.mat()
        if isinstance(item, Mat):
            r, c = item.R, item.C
        else:
            r, c = 1, 1
        if self.col >= self.view.nc:
            self.row += self.h
            self.col = 0
            self.h = r
        if self.col == 0 and self.h == 0:
            self.h = r
        if self.row + r > self.view.nr or self.col + c > self.view.nc:
            self.overflow = True
            return
        self.view.sub(self.row, self.col, r, c).assign(item)
        self.col += c
        self.count += r * c


class Lambda:
    def __init__(self, body, env, params=()):
        self.body, self.env, self.params = body, env, list(params or ())


class Raised(Exception):
    def __init__(self, what):
        self.what = what


class Returned(Exception):
    def __init__(self, val):
        self.val = val


class Unsupported(Exception):
    pass


def as_mat(v):
    if isinstance(v, View):
        return v.mat()
    if isinstance(v, Mat):
        return v
    if isinstance(v, Comma):
        return v.view.mat()
    return None


def lit_fraction(n):
    txt = n.get("txt")
    if txt:
        t = txt.strip().rstrip("fFlL")
        try:
            return Fraction(t)
        except (ValueError, ZeroDivisionError):
            pass
    v = n.get("v")
    return Fraction(v).limit_denominator(10 ** 12) if isinstance(v, float) else Fraction(v)


MANIF_INLINE_DEPTH = 12


class Sym:
    def __init__(self, F):
        self.F = F
        self.map_sizes = {}
        for c in F.classes:
            if c["kind"] != "pattern":
                for fld in c["fields"]:
                    if fld["name"] == "data_" and fld.get("dim"):
                        self.map_sizes[(c["name"], str(c.get("targs")))] = fld["dim"][0] * fld["dim"][1]
        self.notes = []
        self.depth = 0
        self.memo = {}

    # ---------------------------------------------------------------- functions -----
    def call_function(self, f, this, args):
        """Execute in-repo function record f; returns its value (None for void)."""
        if self.depth > MANIF_INLINE_DEPTH:
            raise Unsupported("inline depth")
        # static helpers called with constant arguments (Generator(i), InnerWeights()) are pure: memoise
        if this is None and all(isinstance(a, Aff) and a.is_const() for a in args) and not f.get("ctor"):
            ckey = (f["id"], tuple(a.c for a in args))
            if ckey in self.memo:
                r = self.memo[ckey]
                if isinstance(r, Exception):
                    raise r
                return r.copy() if isinstance(r, Mat) else r
            try:
                r = self._call_function(f, this, args)
            except Raised as e:
                self.memo[ckey] = e
                raise
            m = as_mat(r)
            if m is not None:
                r = m.copy()
                self.memo[ckey] = r
                return r.copy()
            if isinstance(r, (Aff, bool)) or r is None:
                self.memo[ckey] = r
            return r
        return self._call_function(f, this, args)

    def _call_function(self, f, this, args):
        env = {"this": this}
        for p, a in zip(f["params"], args):
            env[p["decl"]] = a
        for p in f["params"][len(args):]:
            env[p["decl"]] = None
        self.depth += 1
        try:
            if f.get("ctor"):
                return self.run_ctor(f, env)
            try:
                self.stmt(f.get("body"), env)
            except Returned as r:
                return r.val
            return None
        finally:
            self.depth -= 1

    def run_ctor(self, f, env):
        obj = Obj(None, f.get("cls"))
        env["this"] = obj
        for i in f.get("inits") or []:
            if i.get("member") == "data_":
                v = self.ev(i.get("init"), env)
                if isinstance(v, Ptr):
                    n = self.map_sizes.get((f.get("cls"), str(f.get("clsargs"))))
                    if n is None:
                        raise Unsupported("unknown view size for %s" % f["name"])
                    base = v.view
                    obj.coeffs = base.sub(v.off, 0, n, 1) if base.nc == 1 else base.sub(0, v.off, 1, n)
                elif isinstance(v, View) and f.get("cls") == "Eigen::Map":
                    obj.coeffs = v     # copying a view re-seats it (Eigen::Map semantics)
                else:
                    m = as_mat(v)
                    if m is None:
                        raise Unsupported("ctor init of data_ in %s" % f["name"])
                    mm = m.copy()
                    obj.coeffs = View(mm, 0, 0, mm.R, mm.C)
            elif i.get("member"):
                obj.fields[i["member"]] = self.ev(i.get("init"), env)
            elif i.get("delegate"):
                v = self.ev(i.get("init"), env)
                if isinstance(v, Obj):
                    obj.coeffs = v.coeffs
        try:
            self.stmt(f.get("body"), env)
        except Returned:
            pass
        return obj

    # ---------------------------------------------------------------- statements -----
    def stmt(self, n, env):
        if not isinstance(n, dict):
            return
        k = n.get("k")
        if k == "CompoundStmt":
            for c in n.get("ch") or []:
                self.stmt(c, env)
            return
        if k == "DeclStmt":
            for d in n.get("decls") or []:
                if d.get("k") != "VarDecl":
                    continue
                init = d.get("init")
                dim = d.get("dim")
                val = None
                if init is not None:
                    ic = A.strip(init)
                    if isinstance(ic, dict) and ic.get("k") == "CXXConstructExpr" and not ic.get("ch") and dim:
                        val = Mat(dim[0], dim[1])
                    else:
                        val = self.ev(init, env)
                        if isinstance(val, ElemView) and not d.get("ref"):
                            val = scalarize(val)      # a scalar local initialised from a coefficient
                        m = as_mat(val)
                        if m is not None and not d.get("ref"):
                            val = m.copy()
                        elif dim and isinstance(val, Top):
                            val = Mat.top(dim[0], dim[1])
                elif dim:
                    val = Mat(dim[0], dim[1])
                env[d["decl"]] = val
            return
        if k == "IfStmt":
            c = self.ev(n.get("cond"), env)
            if c is True:
                self.stmt(n.get("then"), env)
            elif c is False:
                self.stmt(n.get("else"), env)
            elif n.get("else") is None and any(x.get("noret") for x in A.walk(n.get("then"))):
                return      # argument / validity check on symbolic data: evaluate the world in which it passes
            else:
                raise Unsupported("symbolic branch condition at line %s" % n.get("ln"))
            return
        if k == "ReturnStmt":
            raise Returned(self.ev(n.get("e"), env) if n.get("e") is not None else None)
        if k == "SwitchStmt":
            c = self.ev(n.get("cond"), env)
            if not (isinstance(c, Aff) and c.is_const()):
                raise Unsupported("symbolic switch")
            body = n.get("body") or {}
            items = body.get("ch") or []
            start = None
            default = None
            for i, it in enumerate(items):
                x = it
                while isinstance(x, dict) and x.get("k") in ("CaseStmt", "DefaultStmt"):
                    if x.get("k") == "DefaultStmt":
                        default = i
                    else:
                        cv = const_of(x.get("lhs"))
                        if cv is not None and Fraction(cv) == c.c and start is None:
                            start = i
                    x = x.get("sub")
            if start is None:
                start = default
            if start is None:
                return
            for it in items[start:]:
                x = it
                while isinstance(x, dict) and x.get("k") in ("CaseStmt", "DefaultStmt"):
                    x = x.get("sub")
                if isinstance(x, dict) and x.get("k") == "BreakStmt":
                    return
                self.stmt(x, env)
            return
        if k in ("NullStmt", "BreakStmt"):
            return
        if k == "ForStmt":
            self.stmt(n.get("init"), env)
            for _ in range(4096):
                c = self.ev(n.get("cond"), env) if n.get("cond") else True
                if c is False:
                    return
                if c is not True:
                    raise Unsupported("symbolic loop bound at line %s" % n.get("ln"))
                self.stmt(n.get("body"), env)
                if n.get("inc"):
                    self.ev(n["inc"], env)
            raise Unsupported("loop bound exceeds 4096 iterations")
        if k in ("WhileStmt", "DoStmt", "CXXForRangeStmt"):
            raise Unsupported("loop at line %s" % n.get("ln"))
        self.ev(n, env)

    # ---------------------------------------------------------------- expressions -----
    def ev(self, n, env):
        n = A.strip(n)
        if not isinstance(n, dict):
            return None
        k = n.get("k")
        if "iv" in n and k not in ("DeclRefExpr",):
            return Aff(n["iv"])
        if k == "IntegerLiteral":
            return Aff(n["v"])
        if k == "FloatingLiteral":
            return Aff(lit_fraction(n))
        if k == "CXXBoolLiteralExpr":
            return bool(n["v"])
        if k == "StringLiteral":
            return "str"
        if k == "CXXThisExpr":
            return env.get("this")
        if k == "DeclRefExpr":
            d = n.get("decl")
            if d in env:
                return env[d]
            if "iv" in n:
                return Aff(n["iv"])
            if n.get("name") == "_":
                return None
            if str(n.get("qn", "")).endswith("::eps") and "Constants<double>" in str(n.get("qn")):
                return Aff(Fraction(100, 2 ** 52))
            if str(n.get("qn", "")).endswith("::eps_sqrt") and "Constants<double>" in str(n.get("qn")):
                return Aff(Fraction(10, 2 ** 26))      # csqrt(100 * 2^-52), exactly representable
            return TOP
        if k in ("CXXFunctionalCastExpr", "CXXStaticCastExpr", "CStyleCastExpr", "CXXConstCastExpr"):
            return self.ev((n.get("ch") or [None])[0], env)
        if k == "CXXScalarValueInitExpr":
            return Aff(0)
        if k == "UnaryOperator":
            v = self.ev(n["ch"][0], env)
            op = n.get("op")
            if op == "-":
                return self.neg(v)
            if op == "+":
                return v
            if op == "!":
                return (not v) if isinstance(v, bool) else TOP
            if op in ("*", "&"):
                return v
            if op in ("++", "--"):
                t = A.strip(n["ch"][0])
                cur = scalarize(v)
                if isinstance(t, dict) and t.get("k") == "DeclRefExpr" and isinstance(cur, Aff):
                    env[t["decl"]] = cur + Aff(1 if op == "++" else -1)
                    return cur if n.get("postfix") else env[t["decl"]]
            return TOP
        if k == "LambdaExpr":
            body = [c for c in (n.get("ch") or []) if isinstance(c, dict) and c.get("k") == "CompoundStmt"]
            return Lambda(body[-1] if body else None, env, n.get("lparams"))
        if k in ("BinaryOperator", "CompoundAssignOperator") and n.get("op") in ("+=", "-=", "*=", "/="):
            a = self.ev(n["ch"][0], env)
            b = self.ev(n["ch"][1], env)
            return self.assign(n["ch"][0], self.arith(n["op"][0], a, b), env)
        if k == "BinaryOperator":
            op = n.get("op")
            if op == "&&":
                a = self.ev(n["ch"][0], env)
                if a is False:
                    return False
                b = self.ev(n["ch"][1], env)
                return (a and b) if isinstance(a, bool) and isinstance(b, bool) else TOP
            if op == "||":
                a = self.ev(n["ch"][0], env)
                if a is True:
                    return True
                b = self.ev(n["ch"][1], env)
                return (a or b) if isinstance(a, bool) and isinstance(b, bool) else TOP
            a = self.ev(n["ch"][0], env)
            b = self.ev(n["ch"][1], env)
            if op == ",":
                return b
            if op == "=":
                return self.assign(n["ch"][0], b, env)
            if isinstance(a, Ptr) and op == "+" and isinstance(b, Aff) and b.is_const():
                return Ptr(a.view, a.off + int(b.c))
            return self.arith(op, a, b)
        if k == "ConditionalOperator":
            c = self.ev(n["ch"][0], env)
            if c is True:
                return self.ev(n["ch"][1], env)
            if c is False:
                return self.ev(n["ch"][2], env)
            return TOP
        if k == "MemberExpr":
            base = self.ev((n.get("ch") or [None])[0], env)
            if n.get("name") == "data_" and isinstance(base, Obj):
                return base.coeffs
            if isinstance(base, Obj) and n.get("name") in base.fields:
                return base.fields[n["name"]]
            return TOP
        if k == "InitListExpr":
            vals = [self.ev(c, env) for c in n.get("ch") or []]
            return vals
        if k in A.CALL_KINDS:
            return self.call(n, env)
        if k == "CXXThrowExpr":
            raise Raised("throw")
        if k in ("CXXStdInitializerListExpr", "CXXDefaultInitExpr", "ParenListExpr") and n.get("ch"):
            return self.ev(n["ch"][0], env)
        return TOP

    def extra_call(self, n, env, k, fn, obj, args, name, cls, dim):
        return NotImplemented

    def neg(self, v):
        m = as_mat(v)
        if m is not None:
            o = Mat(m.R, m.C)
            o.cells = [(-x if isinstance(x, Aff) else (aneg(x) if isinstance(x, Poly) else TOP)) for x in m.cells]
            return o
        if isinstance(v, Aff):
            return -v
        if isinstance(v, Poly):
            return aneg(v)
        return TOP

    def arith(self, op, a, b):
        if isinstance(a, ElemView):
            a = scalarize(a)          # a coefficient accessor (t(), x(), angle()) is a scalar
        if isinstance(b, ElemView):
            b = scalarize(b)
        if op in ("+", "-", "*", "/"):
            if isinstance(a, bool):
                a = Aff(1 if a else 0)        # a decided comparison used as a number
            if isinstance(b, bool):
                b = Aff(1 if b else 0)
        ma, mb = as_mat(a), as_mat(b)
        if ma is None and mb is None:
            if (isinstance(a, Poly) or isinstance(b, Poly)) and isinstance(a, (Aff, Poly)) and isinstance(b, (Aff, Poly)):
                if op == "+":
                    return aadd(a, b)
                if op == "-":
                    return aadd(a, b, -1)
                if op == "*":
                    return amul(a, b)
                if op == "/" and isinstance(b, Aff) and b.is_const() and b.c != 0:
                    return adiv(a, b)
                if op == "/" and POLY == "expr":
                    return adiv(a, b)
                return TOP
            if POLY == "expr" and op == "/" and isinstance(a, Aff) and isinstance(b, Aff) and not b.is_const():
                return from_sym(to_sym(a) / to_sym(b))
            if isinstance(a, Aff) and isinstance(b, Aff):
                if op == "+":
                    return a + b
                if op == "-":
                    return a - b
                if op == "*":
                    return amul(a, b)
                if op == "/":
                    if b.is_const() and b.c != 0:
                        return a.scale(1 / b.c)
                    return TOP
                if op in ("==", "!=", "<", ">", "<=", ">=") and a.is_const() and b.is_const():
                    return {"==": a.c == b.c, "!=": a.c != b.c, "<": a.c < b.c, ">": a.c > b.c,
                            "<=": a.c <= b.c, ">=": a.c >= b.c}[op]
                if op == "%" and a.is_const() and b.is_const() and b.c != 0:
                    return Aff(int(a.c) % int(b.c))
            return TOP
        if op in ("+", "-") and ma is not None and mb is not None and (ma.R, ma.C) == (mb.R, mb.C):
            o = Mat(ma.R, ma.C)
            o.cells = [aadd(x, y, 1 if op == "+" else -1) for x, y in zip(ma.cells, mb.cells)]
            return o
        if op == "*":
            if ma is not None and mb is not None:
                if ma.C != mb.R:
                    return TOP
                o = Mat(ma.R, mb.C)
                def nzero(x):
                    return not (isinstance(x, Aff) and not x.t and x.c == 0)
                rows = [[(t, ma.get(r, t)) for t in range(ma.C) if nzero(ma.get(r, t))] for r in range(ma.R)]
                cols = [{t: mb.get(t, c) for t in range(mb.R) if nzero(mb.get(t, c))} for c in range(mb.C)]
                zero = Aff(0)
                for r in range(ma.R):
                    row = rows[r]
                    for c in range(mb.C):
                        col = cols[c]
                        acc = zero
                        for t, x in row:
                            y = col.get(t)
                            if y is None:
                                continue
                            acc = aadd(acc, amul(x, y))
                            if acc is TOP:
                                break
                        o.set(r, c, acc)
                return o
            s, m = (a, mb) if ma is None else (b, ma)
            if isinstance(s, (Aff, Poly)):
                o = Mat(m.R, m.C)
                o.cells = [amul(s, x) for x in m.cells]
                return o
        if op == "/" and ma is not None and POLY == "expr" and isinstance(b, (Aff, Poly)) and not (isinstance(b, Aff) and b.is_const()):
            o = Mat(ma.R, ma.C)
            o.cells = [(adiv(x, b) if isinstance(x, (Aff, Poly)) else TOP) for x in ma.cells]
            return o
        if op == "/" and ma is not None and isinstance(b, Aff) and b.is_const() and b.c != 0:
            o = Mat(ma.R, ma.C)
            o.cells = [(x.scale(1 / b.c) if isinstance(x, Aff) else (adiv(x, b) if isinstance(x, Poly) and POLY == "expr" else TOP)) for x in ma.cells]
            return o
        d = ma or mb
        return Mat.top(d.R, d.C)

    def assign(self, lhs, val, env):
        l = A.strip(lhs)
        if isinstance(l, dict) and l.get("k") == "DeclRefExpr":
            env[l["decl"]] = val
            return val
        tgt = self.ev(l, env)
        if isinstance(tgt, View):
            m = as_mat(val)
            tgt.assign(m if m is not None else val)
            return tgt
        return TOP

    def view_of(self, v):
        if isinstance(v, View):
            return v
        if isinstance(v, Mat):
            return View(v, 0, 0, v.R, v.C)
        if isinstance(v, Comma):
            return v.view
        return None

    def call(self, n, env):
        k = n.get("k")
        fn, obj, args = A.call_parts(n)
        name = A.short(fn) if fn else ""
        cls = str(n.get("cls", ""))
        dim = n.get("dim")
        if n.get("noret"):
            raise Raised(str(n.get("targs") or fn))
        hooked = self.extra_call(n, env, k, fn, obj, args, name, cls, dim)
        if hooked is not NotImplemented:
            return hooked
        if k in ("CXXConstructExpr", "CXXTemporaryObjectExpr") and (n.get("elidable") or not n.get("inrepo")):
            real = [a for a in args if not (isinstance(a, dict) and a.get("k") == "CXXDefaultArgExpr")]
            if len(real) == 1 and (n.get("mdim") or cls == "Eigen::Map" or cls.startswith("manif::")):
                v0 = self.ev(real[0], env)
                if isinstance(v0, Obj):
                    return v0      # implicit copy / move of a manif object (elided or trivial)
        if k == "CXXOperatorCallExpr" and n.get("op") == "()" and obj is not None:
            lv = self.ev(obj, env)
            if isinstance(lv, Lambda):
                if lv.body is None:
                    raise Unsupported("lambda without body")
                lenv = dict(lv.env)
                for pd, a in zip(lv.params, args):
                    av = self.ev(a, env)
                    am = as_mat(av)
                    lenv[pd] = am.copy() if am is not None and not isinstance(av, View) else av
                try:
                    self.stmt(lv.body, lenv)
                except Returned as r:
                    return r.val
                return None
        # ---- tl::optional -----------------------------------------------------------------
        if cls == "tl::optional":
            if name in ("operator bool", "has_value"):
                return self.ev(obj, env) is not None
            if k in ("CXXConstructExpr", "CXXTemporaryObjectExpr"):
                return self.ev(args[0], env) if args else None
            if k == "CXXOperatorCallExpr" and n.get("op") in ("*", "->"):
                return self.ev(obj, env)
            if name == "value" and obj is not None:
                return self.ev(obj, env)
            return TOP
        # ---- manif callee: inline --------------------------------------------------------
        if n.get("inrepo"):
            f = self.F.by_id.get(n.get("fid"))
            if (f is None or f.get("defaulted")) and k in ("CXXConstructExpr", "CXXTemporaryObjectExpr") and len(args) == 1:
                return self.ev(args[0], env)   # implicit / defaulted copy or move construction
            if f is None and k in ("CXXConstructExpr", "CXXTemporaryObjectExpr") and not args:
                return Obj(None, cls)   # trivial tag objects (intseq<...>{})
            if f is None or (f.get("body") is None and not f.get("ctor")):
                raise Unsupported("no body for %s" % fn)
            this = self.ev(obj, env) if obj is not None else None
            if k == "CXXOperatorCallExpr" and "cls" not in n:
                this = None
            argv = [self.ev(a, env) for a in args]
            return self.call_function(f, this, argv)
        # ---- std::get on folded arrays handled by iv; other std --------------------------------
        if fn and fn.startswith("std::"):
            if name in ("move", "forward") and args:
                return self.ev(args[0], env)
            return TOP
        if not cls.startswith("Eigen::") and not (fn or "").startswith("Eigen::"):
            return Mat.top(dim[0], dim[1]) if dim else TOP
        # ---- Eigen ---------------------------------------------------------------------------
        if k in ("CXXConstructExpr", "CXXTemporaryObjectExpr"):
            if cls == "Eigen::DiagonalMatrix" and len(args) in (2, 3):
                vals = [scalarize(self.ev(a, env)) for a in args]     # DiagonalMatrix(d0, d1[, d2])
                m = Mat(len(vals), len(vals), Aff(0))
                for i, x in enumerate(vals):
                    m.set(i, i, x if isinstance(x, (Aff, Poly)) else TOP)
                return m
            if not args:
                return Mat(dim[0], dim[1]) if dim else TOP
            if len([a for a in args if A.strip(a) is not None and not (isinstance(a, dict) and a.get("k") == "CXXDefaultArgExpr")]) == 1:
                v = self.ev(args[0], env)
                if isinstance(v, Ptr):
                    return v       # Eigen::Map<Matrix>(pointer): keep the pointer, the owner decides the extent
                m = as_mat(v)
                if m is not None:
                    return v if cls in ("Eigen::Ref", "Eigen::Block", "Eigen::VectorBlock") and isinstance(v, View) else m
                if isinstance(v, (Aff, Poly)) and dim and dim[0] * dim[1] == 1:
                    return Mat(1, 1, v)
                return Mat.top(dim[0], dim[1]) if dim else TOP
            if dim and len(args) == dim[0] * dim[1] and (dim[0] == 1 or dim[1] == 1):
                m = Mat(dim[0], dim[1])
                m.cells = [scalarize(self.ev(a, env)) for a in args]
                return m
            return Mat.top(dim[0], dim[1]) if dim else TOP
        o = self.ev(obj, env) if obj is not None else None
        if k == "CXXOperatorCallExpr":
            op = n.get("op")
            if op in ("()", "[]"):
                v = self.view_of(o)
                if v is None:
                    return TOP
                sub = subregion("operator" + op, [], args_iv(self, args, env), v.nr, v.nc)
                if sub is None:
                    return TOP
                return ElemView(v.sub(*sub))
            if op == "<<":
                v = self.view_of(o)
                if v is None:
                    return TOP
                cm = Comma(v)
                cm.add(self.ev(args[0], env))
                return cm
            if op == ",":
                if isinstance(o, Comma):
                    o.add(self.ev(args[0], env))
                    return o
                return TOP
            if op in ("=", "+=", "-=", "*=", "/="):
                v = self.view_of(o)
                rhs = self.ev(args[0], env)
                if v is None:
                    return TOP
                if op == "=":
                    m = as_mat(rhs)
                    v.assign(m if m is not None else (rhs if isinstance(rhs, (Aff, Top)) else TOP))
                else:
                    cur = v.mat()
                    res = self.arith(op[0], cur if not isinstance(o, ElemView) else cur.get(0, 0), rhs if not isinstance(rhs, ElemView) else rhs.mat().get(0, 0))
                    m = as_mat(res)
                    v.assign(m if m is not None else res)
                return o
            if op in ("+", "-", "*", "/"):
                a = o
                if "cls" not in n:
                    a = self.ev(args[0], env)
                    b = self.ev(args[1], env) if len(args) > 1 else None
                else:
                    b = self.ev(args[0], env) if args else None
                if b is None and op == "-":
                    return self.neg(a)
                return self.arith(op, scalarize(a), scalarize(b))
            return Mat.top(dim[0], dim[1]) if dim else TOP
        # member / static functions by name
        if name in ("Zero", "Identity", "Ones", "Constant") and dim:
            if name == "Zero":
                return Mat.const(dim[0], dim[1], 0)
            if name == "Ones":
                return Mat.const(dim[0], dim[1], 1)
            if name == "Identity":
                return Mat.identity(dim[0], dim[1])
            v = scalarize(self.ev(args[-1], env)) if args else TOP
            return Mat(dim[0], dim[1], v if isinstance(v, Aff) else TOP)
        v = self.view_of(o)
        if name in ("noalias", "derived", "const_cast_derived", "eval", "matrix", "array", "cast", "template cast", "toDenseMatrix"):
            return o
        if name == "coeffs" and cls.startswith("Eigen::Quaternion"):
            return o       # a quaternion's coefficient vector (x, y, z, w) is the quaternion's storage
        if name == "finished":
            return o.view.mat() if isinstance(o, Comma) else TOP
        if name == "data" and v is not None:
            return Ptr(v, 0)
        if v is None:
            return Mat.top(dim[0], dim[1]) if dim else TOP
        if name in ("setZero", "setIdentity", "setOnes", "setConstant", "fill"):
            if name == "setZero":
                v.assign(Aff(0))
            elif name == "setOnes":
                v.assign(Aff(1))
            elif name == "setIdentity":
                v.assign(Mat.identity(v.nr, v.nc))
            else:
                x = scalarize(self.ev(args[0], env)) if args else TOP
                v.assign(x if isinstance(x, Aff) else TOP)
            return o
        if name == "cross" and args:
            m = v.mat()
            mb = as_mat(self.ev(args[0], env))
            if mb is not None and m.R * m.C == 3 and mb.R * mb.C == 3:
                a, b = m.cells, mb.cells
                t = Mat(3, 1)
                t.cells = [aadd(amul(a[1], b[2]), amul(a[2], b[1]), -1), aadd(amul(a[2], b[0]), amul(a[0], b[2]), -1), aadd(amul(a[0], b[1]), amul(a[1], b[0]), -1)]
                return t
            return Mat.top(3, 1)
        if name == "transpose":
            m = v.mat()
            t = Mat(m.C, m.R)
            for r in range(m.R):
                for c in range(m.C):
                    t.set(c, r, m.get(r, c))
            return t
        if name == "trace":
            m = v.mat()
            acc = Aff(0)
            for i in range(min(m.R, m.C)):
                acc = aadd(acc, m.get(i, i))
            return acc
        if name == "sum":
            acc = Aff(0)
            for x in v.mat().cells:
                acc = aadd(acc, x)
            return acc
        if name in ("x", "y", "z", "w", "coeff", "coeffRef", "row", "col", "head", "tail", "segment", "block",
                    "topLeftCorner", "topRightCorner", "bottomLeftCorner", "bottomRightCorner", "topRows",
                    "bottomRows", "leftCols", "rightCols", "middleRows", "middleCols"):
            sub = subregion(name, n.get("targs") or [], args_iv(self, args, env), v.nr, v.nc)
            if sub is None:
                return Mat.top(dim[0], dim[1]) if dim else TOP
            sv = v.sub(*sub)
            if name in ("x", "y", "z", "w", "coeff", "coeffRef"):
                return ElemView(sv)
            return sv
        return Mat.top(dim[0], dim[1]) if dim else TOP


class ElemView(View):
    """1x1 window that behaves as a scalar in arithmetic."""

    def __init__(self, v):
        View.__init__(self, v.m, v.r0, v.c0, 1, 1)


def scalarize(v):
    if isinstance(v, ElemView):
        return v.mat().get(0, 0) if v.inside() else TOP
    if isinstance(v, (Mat, View)) and v.R == 1 and v.C == 1 and False:
        return as_mat(v).get(0, 0)
    return v


def args_iv(sym, args, env):
    """Index arguments: replace by literal nodes carrying the evaluated constant when known."""
    out = []
    for a in args:
        c = const_of(a)
        if c is None:
            v = scalarize(sym.ev(a, env))
            if isinstance(v, Aff) and v.is_const() and v.c.denominator == 1:
                c = int(v.c)
        out.append({"k": "IntegerLiteral", "v": c} if c is not None else a)
    return out


# patch Sym.ev so that element views decay to scalars where a scalar is needed
_orig_arith = Sym.arith


def _arith(self, op, a, b):
    return _orig_arith(self, op, scalarize(a), scalarize(b))


Sym.arith = _arith
_orig_neg = Sym.neg


def _neg(self, v):
    return _orig_neg(self, scalarize(v))


Sym.neg = _neg


def sym_object(prefix, n):
    m = Mat(n, 1)
    m.cells = [Aff.sym("%s%d" % (prefix, i)) for i in range(n)]
    return Obj(View(m, 0, 0, n, 1))


def sym_matrix(prefix, R, Cc):
    m = Mat(R, Cc)
    m.cells = [Aff.sym("%s_%d_%d" % (prefix, r, c)) for r in range(R) for c in range(Cc)]
    return m
