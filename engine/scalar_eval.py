"""Symbolic evaluation of *scalar* code to sympy expressions (exact rationals for literals).

Used for literal polynomial tables (C15 smoothing_phi) and for the jet rule (R-JET: the two arms
of a precision switch must meet).  It never evaluates floating point: a literal `1./6.` is the
rational 1/6, sin/cos/sqrt/atan2 are sympy functions.
"""
import re

import sympy as sp

from . import astq as A

MATH = {"sin": sp.sin, "cos": sp.cos, "tan": sp.tan, "sqrt": sp.sqrt, "abs": sp.Abs, "fabs": sp.Abs, "acos": sp.acos,
        "asin": sp.asin, "atan": sp.atan, "exp": sp.exp, "log": sp.log}


class Unknown(Exception):
    pass


def literal(n):
    txt = n.get("txt")
    if txt:
        t = txt.strip().rstrip("fFlL")
        try:
            return sp.Rational(t)
        except (TypeError, ValueError):
            pass
    return sp.nsimplify(n.get("v"), rational=True)


class ScalarEval:
    def __init__(self, F, resolver=None):
        """resolver(node, self, env) -> sympy expr or None: gives meaning to calls the evaluator does not
        know (accessors such as angle(), squaredNorm() of a slice, Constants::eps ...)."""
        self.F = F
        self.resolver = resolver

    def ev(self, n, env):
        n = A.strip(n)
        if not isinstance(n, dict):
            raise Unknown("null")
        k = n.get("k")
        if k == "IntegerLiteral":
            return sp.Integer(n["v"])
        if k == "FloatingLiteral":
            return literal(n)
        if k == "CXXBoolLiteralExpr":
            return sp.true if n["v"] else sp.false
        if k == "DeclRefExpr":
            d = n.get("decl")
            if d in env:
                return env[d]
            if self.resolver:
                r = self.resolver(n, self, env)
                if r is not None:
                    return r
            if "iv" in n:
                return sp.Integer(n["iv"])
            raise Unknown("unbound %s" % n.get("name"))
        if k in ("CXXFunctionalCastExpr", "CXXStaticCastExpr", "CStyleCastExpr"):
            return self.ev((n.get("ch") or [None])[0], env)
        if k == "UnaryOperator":
            v = self.ev(n["ch"][0], env)
            op = n.get("op")
            if op == "-":
                return -v
            if op == "+":
                return v
            if op == "!":
                return sp.Not(v)
            raise Unknown("unary " + op)
        if k == "BinaryOperator":
            op = n.get("op")
            a = self.ev(n["ch"][0], env)
            b = self.ev(n["ch"][1], env)
            if op == "+":
                return a + b
            if op == "-":
                return a - b
            if op == "*":
                return a * b
            if op == "/":
                return a / b
            if op in ("<", ">", "<=", ">=", "==", "!="):
                return {"<": sp.Lt, ">": sp.Gt, "<=": sp.Le, ">=": sp.Ge, "==": sp.Eq, "!=": sp.Ne}[op](a, b)
            if op == "&&":
                return sp.And(a, b)
            if op == "||":
                return sp.Or(a, b)
            raise Unknown("binary " + op)
        if k == "ConditionalOperator":
            c = self.ev(n["ch"][0], env)
            if c == sp.true:
                return self.ev(n["ch"][1], env)
            if c == sp.false:
                return self.ev(n["ch"][2], env)
            raise Unknown("symbolic ?: condition %s" % c)
        if k == "CXXThrowExpr":
            raise Thrown()
        if k in A.CALL_KINDS:
            if self.resolver:
                r = self.resolver(n, self, env)
                if r is not None:
                    return r
            fn, obj, args = A.call_parts(n)
            name = A.short(fn)
            if k == "CXXOperatorCallExpr" and n.get("op") in ("+", "-", "*", "/") and "cls" not in n:
                a, b = self.ev(args[0], env), (self.ev(args[1], env) if len(args) > 1 else None)
                op = n["op"]
                if b is None:
                    return -a if op == "-" else a
                return {"+": a + b, "-": a - b, "*": a * b, "/": a / b}[op]
            if name in MATH and len(args) == 1:
                return MATH[name](self.ev(args[0], env))
            if name == "atan2" and len(args) == 2:
                return sp.atan2(self.ev(args[0], env), self.ev(args[1], env))
            if name == "pow" and len(args) == 2:
                return self.ev(args[0], env) ** self.ev(args[1], env)
            if k in ("CXXConstructExpr", "CXXTemporaryObjectExpr") and len(args) == 1:
                return self.ev(args[0], env)
            raise Unknown("call %s" % (fn or name))
        raise Unknown(k)

    def run_straight(self, stmts, env):
        """Execute declaration / assignment statements of scalars; stops at the first statement it cannot
        interpret and returns its index (so that callers can handle ifs / returns themselves)."""
        for i, s in enumerate(stmts):
            if not self.step(s, env):
                return i
        return len(stmts)

    def step(self, s, env):
        if not isinstance(s, dict):
            return True
        k = s.get("k")
        if k == "NullStmt":
            return True
        if k == "DeclStmt":
            for d in s.get("decls") or []:
                if d.get("k") != "VarDecl":
                    continue
                if d.get("init") is None:
                    continue
                try:
                    env[d["decl"]] = self.ev(d["init"], env)
                except Unknown:
                    env.pop(d["decl"], None)
            return True
        if k == "BinaryOperator" and s.get("op") == "=":
            l = A.strip(s["ch"][0])
            if isinstance(l, dict) and l.get("k") == "DeclRefExpr":
                try:
                    env[l["decl"]] = self.ev(s["ch"][1], env)
                except Unknown:
                    env.pop(l["decl"], None)
                return True
        return False


class Thrown(Exception):
    pass
